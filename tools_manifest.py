#!/venv/bin/python
"""Regenerates MANIFEST.json from the table below (kept valid at all times)."""
import json, os, sys
HERE = os.path.dirname(os.path.abspath(__file__))
BASELINE = "cd /repo && /venv/bin/python -m pytest -ra -q -p no:cacheprovider --timeout=900 --continue-on-collection-errors"
props = [json.loads(l) for l in open(os.path.join(HERE, "properties.jsonl"))]
sys.path.insert(0, HERE)
from manifest_table import CHECKS, NOT_YET  # noqa: E402
checks = []
for p in props:
    pid = p["id"]
    if pid in CHECKS:
        c = CHECKS[pid]
        checks.append({
            "property_id": pid,
            "quick_cmd": f"./check {pid} --tier quick",
            "thorough_cmd": f"./check {pid} --tier thorough",
            "evidence_file": f"/verif/evidence/{pid}.json",
            "replay_cmd_template": f"./check {pid} --replay {{path}}",
            "engine": c["engine"],
            "level_claimed": {"category": "model_checking", "text": c["text"], "design_ref": c["design_ref"]},
            "level_note": c["note"],
            "technique": c["technique"],
        })
na = [{"property_id": p["id"], "reason": NOT_YET.get(p["id"], "check not built yet in this session; the design (DESIGN.md section 3) applies bounded exhaustive exploration to it")} for p in props if p["id"] not in CHECKS]
engines = {}
for pid, c in CHECKS.items():
    engines.setdefault(c["engine"], []).append(pid)
ENG = {
    "lattice": ("mc/sweep.py", "explicit enumeration of the finite configuration lattice (operation x coordinate-system signature x flavor x backend x stratified value alphabet) against the real implementation, oracle evaluated at every point"),
    "history": ("mc/props/C15.py", "depth-bounded exhaustive search over event sequences on live objects, model compared after every event"),
    "history+schedule": ("mc/props/C20.py, mc/sched.py, mc/glob.py", "fork-tree exploration of call histories over process-global state, and preemption-bounded exploration of real threads under a sys.settrace scheduler"),
    "schedule": ("mc/sched.py", "hand-rolled preemption-bounded exploration of real threads under a sys.settrace scheduler"),
}
m = {
    "version": 1,
    "setup_cmd": "/venv/bin/python -c \"import numpy, awkward, numba, sympy, mpmath; print('ok')\"",
    "hooks": {
        "guard": "SCIKIT_HEP_VECTOR_VERIF",
        "enable": "no source hooks: checks import /repo/src (or $VECTOR_SRC) as is; high precision is injected by subclassing the object backend in the harness, coverage by wrapping dispatch_map values in-process, scheduling by sys.settrace",
        "baseline_off_cmd": BASELINE,
        "source_commits": [],
        "add_only": True,
    },
    "engines": [{"name": k, "path": ENG[k][0], "serves_properties": sorted(v), "kind_free_text": ENG[k][1]} for k, v in sorted(engines.items())],
    "checks": checks,
    "notes": "All checks are bounded exhaustive explorations of the real implementation (model checking family); see DESIGN.md. Genuine defects are in known_findings.json; fix: commits in /repo are listed there with status=fixed.",
    "not_applicable": na,
}
json.dump(m, open(os.path.join(HERE, "MANIFEST.json"), "w"), indent=1)
import jsonschema
jsonschema.validate(m, json.load(open("/root/.vp/MANIFEST.schema.json")))
print("MANIFEST.json written:", len(checks), "checks,", len(na), "not_applicable")
