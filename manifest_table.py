NOTE_L1 = "trusted base: CPython, mpmath (60-digit arithmetic), the harness (MpLib adapter, M_conv, alphabets, catalogue); value space bounded by the stratified dyadic alphabets"
CHECKS = {
    "C01": dict(
        engine="lattice",
        technique="bounded exhaustive enumeration of operation x coordinate-system signature x flavor x stratified value alphabet on the real dispatch path at 60 digits; differential oracle against the all-Cartesian signature",
        text="Every catalogued operation is executed through the real public API for every coordinate-system signature of its operands (all 2404 dispatch-table variants are reached and counted), both flavors and a stratified alphabet covering every piece of every piecewise construct; each result is compared at 1e-40 with the same call on the same geometric operands in Cartesian storage. Holds = no explored point deviates.",
        design_ref="DESIGN.md section 3, C01",
        note=NOTE_L1,
    ),
    "C02": dict(
        engine="lattice",
        technique="bounded exhaustive enumeration of operation x signature x flavor x stratified alphabet on the real dispatch path, at 60 digits and in float64; oracle = independent reference model of the documented definitions (M_geo)",
        text="Every catalogued operation, for every coordinate-system signature (the Cartesian one included), both flavors and the stratified operand/scalar alphabets, is executed through the real public API and compared with an independent mpmath reference written from the documentation: at 60 digits (1e-40) wherever the definition is finite, and on ordinary float64 object vectors (1e-9 plus an explicit +-1ulp conditioning estimate) on the well-conditioned strata.",
        design_ref="DESIGN.md section 3, C02",
        note=NOTE_L1 + "; M_geo (mc/model.py, ~300 lines of formulas) is trusted and cross-checked by the algebraic laws of C09-C11",
    ),
    "C13": dict(
        engine="lattice",
        technique="bounded exhaustive enumeration of accessor/predicate x coordinate system x backend x full boundary-heavy alphabet x tolerance; exact range, sign and iff oracles evaluated at every point",
        text="Every range, sign and classification clause of the statement is evaluated on float64 object vectors, NumPy arrays and 60-digit vectors for all coordinate systems and the full alphabet including axis-aligned, zero, +-pi azimuth, light-like, t=0 and negative-time strata, with tolerances {0, 1e-5, 0.25}; the angle predicates are decided against the exact cosine on pairs a factor 2 away from the decision boundary.",
        design_ref="DESIGN.md section 3, C13",
        note="trusted base: CPython, NumPy, mpmath, the harness; value space bounded by the alphabets; NaN operands excluded",
    ),
    "C12": dict(
        engine="lattice",
        technique="bounded exhaustive enumeration of coordinate-system pairing x backend x stored-coordinate pair class x call form x tolerance pair; stored-coordinate equality model plus coherence laws evaluated on every pair",
        text="For every dimension, all 4/36/144 system pairings, four backends and pair classes built from stored coordinates (identical, one/two/all components different, nearly equal, exactly equal across systems), the check evaluates reflexivity, symmetry, the stored-coordinate iff, != as the negation of ==, the isclose laws over a tolerance grid, and agreement of operator / numpy-function / method forms element by element.",
        design_ref="DESIGN.md section 3, C12",
        note="trusted base: CPython, NumPy, Awkward, the harness; NaN-free operands; mixed-system truth values are taken from the implementation (only coherence is asserted there)",
    ),
    "C06": dict(
        engine="lattice",
        technique="exhaustive enumeration of all 16 664 name subsets (<= 5 of 19 names) x 11 constructors, plus value-kind and unknown-name variants of every accepted set, against a recogniser of the documented constructor grammar (M_ctor)",
        text="Every subset of up to five of the 19 recognised coordinate names is passed, with a distinct tag value per name, to vector.obj, the six object classes, vector.array (dict and dtype forms), vector.zip and vector.Array; acceptance, exception type, dimension, coordinate system, flavor and verbatim storage are compared with a 30-line grammar model, and the array constructors with the weaker contract of the statement and with vector.obj. Accepted sets are re-run with every value kind at every position and with unknown names appended.",
        design_ref="DESIGN.md section 3, C06",
        note="trusted base: the grammar recogniser m_ctor (mc/props/C06.py); finite numeric tag values only",
    ),
    "C09": dict(
        engine="lattice",
        technique="bounded exhaustive enumeration of law x coordinate system of boosted vector x coordinate system of booster x 4D alphabet x velocity alphabet; metamorphic Lorentz laws evaluated through public methods at 60 digits and in float64",
        text="Invariance of the Minkowski product (hence proper time), inversion by the opposite boost, relativistic velocity addition along an axis, boost_p4 = boost_beta3(to_beta3), boostX/Y/Z(beta) = boost_beta3 along the axis = boostX/Y/Z(gamma) with signed gamma, dimension dispatch of boost()/boostCM_of() with TypeError for wrong dimensions, and v.boostCM_of*(v) at rest with time component tau are evaluated for all 12 systems of the boosted vector, all 12/6 systems of the booster, time-like / near-light-cone / space-like / negative-time vectors and the velocity alphabets.",
        design_ref="DESIGN.md section 3, C09",
        note=NOTE_L1 + "; M_geo is used only to decide representability of intermediates",
    ),
    "C10": dict(
        engine="lattice",
        technique="bounded exhaustive enumeration of law x rotation spelling x coordinate system/dimension x vector x angle / axis / Euler order and triple / quaternion alphabets; metamorphic rotation laws through public methods at 60 digits and in float64",
        text="Norm, dot-product and handedness preservation, untouched temporal coordinate, additivity and inversion about a fixed axis, rotate_axis about coordinate axes = rotateX/Y/Z and independence of axis length and storage, quaternion = axis-angle, rotate_euler = the documented product of three axis rotations for all 12 orders in lower/upper/mixed case and the default order, rotate_nautical = rotate_euler(roll, pitch, yaw, 'zyx'), for all 2/6/12 systems of the rotated vector and all 6 systems of the axis.",
        design_ref="DESIGN.md section 3, C10",
        note=NOTE_L1,
    ),
    "C11": dict(
        engine="lattice",
        technique="bounded exhaustive enumeration of algebraic law x coordinate-system pairing x flavor x operand pair/triple x factors at 60 digits, plus operator / NumPy-ufunc form x backend x system in float64; each law evaluated through public methods and compared with the exact Cartesian value",
        text="Commutativity, associativity, subtraction as inverse, distributivity, composition of scalings, negation = scale(-1), symmetry/bilinearity/metric of dot, v.v = rho2/mag2/tau2, antisymmetry/bilinearity/orthogonality/Lagrange identity of cross, unit() of norm one, for all 4/36/144 system pairings (triples diagonal+cross in quick) and both flavors; then + - * / @ unary -, +, abs, **, numpy.add/subtract/multiply/true_divide/negative/absolute/square/power/sqrt/cbrt against the method or norm-based definition on object, NumPy and Awkward vectors.",
        design_ref="DESIGN.md section 3, C11",
        note=NOTE_L1,
    ),
    "C04": dict(
        engine="lattice",
        technique="bounded exhaustive enumeration of backend x flavor x source system x conversion call (40 to_* targets x imputation keywords, to_VectorND / to_ND / like x keyword spellings) x operand; conversion model (M_conv) plus exact bit-for-bit pass-through oracles",
        text="For all 20 source systems, 40 to_* targets with every choice of imputed-coordinate keyword (scalar and array-valued), and the dimension-changing calls with every keyword spelling, on 60-digit and float64 objects, NumPy and Awkward arrays in both flavors: result system and flavor, unchanged stored coordinates when the system does not change, retained stored coordinates of projections/embeddings bit for bit, imputed values exactly the keyword or zero in the right coordinate type, geometric value against the exact conversion, round trip, and agreement of array backends with the object backend.",
        design_ref="DESIGN.md section 3, C04",
        note=NOTE_L1,
    ),
    "C05": dict(
        engine="lattice",
        technique="exhaustive enumeration of the finite type lattice: method x dimension pairing x coordinate-system signature x flavor per operand x backend per operand, plus operator forms; type model (M_type) and a differential coordinate-system table evaluated at every point",
        text="Every catalogued method is called for every dimension pairing (allowed pairings must work with no 'has no signature' error, the others must raise TypeError and work after like()), every flavor combination and all 16 backend pairings (all signatures on object x object, diagonal+cross elsewhere in quick; all in thorough); backend, flavor and dimension of the result are compared with the stated rules and the coordinate system must be the same function of the operand systems on every backend / flavor. Operators are compared with their methods on every backend pairing.",
        design_ref="DESIGN.md section 3, C05",
        note="trusted base: the catalogue (mc/catalogue.py) and M_type; two fixed generic values per operand (types do not depend on values)",
    ),
}
NOT_YET = {}
