NOTE_L1 = "trusted base: CPython, mpmath (60-digit arithmetic), the harness (MpLib adapter, M_conv, alphabets, catalogue); value space bounded by the stratified dyadic alphabets"
CHECKS = {
    "C01": dict(
        engine="lattice",
        technique="bounded exhaustive enumeration of operation x coordinate-system signature x flavor x stratified value alphabet on the real dispatch path at 60 digits; differential oracle against the all-Cartesian signature",
        text="Every catalogued operation is executed through the real public API for every coordinate-system signature of its operands (all 2404 dispatch-table variants are reached and counted), both flavors and a stratified alphabet covering every piece of every piecewise construct; each result is compared at 1e-40 with the same call on the same geometric operands in Cartesian storage. Holds = no explored point deviates.",
        design_ref="DESIGN.md section 3, C01",
        note=NOTE_L1,
    ),
}
NOT_YET = {}
