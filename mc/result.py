"""Mergeable result of exploring one shard (or a whole run)."""

from __future__ import annotations

MAX_SAMPLES = 12
MAX_PER_CLASS_KEPT = 1


class Result:
    def __init__(self):
        self.states = 0  # distinct lattice points / history states visited
        self.transitions = 0  # implementation calls (events, scheduled steps) executed
        self.traces = 0  # model predictions compared with the implementation
        self.evaluations = 0  # cases explored
        self.nontrivial = 0  # distinct non-trivial cases (shards partition the space)
        self.counters = {}  # free-form named counters (summed; *_max are maxed)
        self.sets = {}  # named sets merged by union (coverage bookkeeping)
        self.samples = []
        self.caps = []
        self._viol = {}  # class -> dict(msg, case, count, order)
        self._order = 0

    # -- recording -----------------------------------------------------------------
    def count(self, name, n=1):
        self.counters[name] = self.counters.get(name, 0) + n

    def add_to(self, name, item):
        self.sets.setdefault(name, set()).add(item)

    def sample(self, case):
        if len(self.samples) < MAX_SAMPLES:
            self.samples.append(case)

    def violation(self, cls, msg, case):
        """Record a violation; the first (simplest, canonical order) per class is kept."""
        v = self._viol.get(cls)
        if v is None:
            self._viol[cls] = {"msg": msg, "case": case, "count": 1, "order": self._order}
            self._order += 1
        else:
            v["count"] += 1

    # -- merging -------------------------------------------------------------------
    def merge(self, other: "Result"):
        self.states += other.states
        self.transitions += other.transitions
        self.traces += other.traces
        self.evaluations += other.evaluations
        self.nontrivial += other.nontrivial
        for k, v in other.counters.items():
            if k.endswith("_max"):
                self.counters[k] = max(self.counters.get(k, 0), v)
            else:
                self.counters[k] = self.counters.get(k, 0) + v
        for k, s in other.sets.items():
            self.sets.setdefault(k, set()).update(s)
        for s in other.samples:
            if len(self.samples) < MAX_SAMPLES:
                self.samples.append(s)
        self.caps.extend(other.caps)
        for cls, v in other._viol.items():
            mine = self._viol.get(cls)
            if mine is None:
                self._viol[cls] = dict(v, order=self._order)
                self._order += 1
            else:
                mine["count"] += v["count"]
                # keep the simplest witness: shorter case description first
                if len(repr(v["case"])) < len(repr(mine["case"])):
                    mine["msg"], mine["case"] = v["msg"], v["case"]

    def violation_classes(self):
        return dict(self._viol)

    def coverage(self):
        cov = {
            "states": self.states,
            "transitions": self.transitions,
            "traces_validated_against_impl": self.traces,
            "evaluations": self.evaluations,
            "distinct_nontrivial": self.nontrivial,
            "samples": self.samples[:MAX_SAMPLES],
            "counters": {k: (round(v, 3) if isinstance(v, float) else v) for k, v in sorted(self.counters.items())},
        }
        for k, s in self.sets.items():
            cov[f"n_{k}"] = len(s)
            if len(s) <= 64:
                cov[k] = sorted(map(str, s))
        return cov
