"""Stratified value alphabets.

A geometric vector is an exact Cartesian tuple whose components are dyadic rationals
(exact in float64 and in mpf).  Every piece of every piecewise construct in the compute
layer (arctan2 quadrants, hemispheres, sign/abs/copysign, clamps, rectify's modulo)
contains several algebraically unrelated points.  Each entry carries stratum tags.
"""

from __future__ import annotations

import math
from fractions import Fraction

from mpmath import mpf

# ---- 2D: four quadrants, two unrelated magnitudes / directions each ----------------
Q2_A = [(1.5, 0.75), (-0.625, 2.25), (-1.25, -0.5), (2.5, -1.75)]
Q2_B = [(0.1875, 3.5), (-4.25, 0.375), (-0.3125, -2.75), (1.125, -0.4375)]
Z_A = [0.875, -1.375]
Z_B = [3.25, -0.21875]

QUADRANT = {(True, True): "q1", (False, True): "q2", (False, False): "q3", (True, False): "q4"}


def _tags2(x, y):
    return {QUADRANT[(x > 0, y > 0)]}


def _dy(v, bits=6):
    """round to a dyadic rational with `bits` fractional bits (exact in float64)."""
    return math.floor(v * (1 << bits) + 0.5) / (1 << bits)


# points *on* the coordinate planes / half-planes: the "zero" piece of sign(), the exact values 0, pi, +-pi/2 of phi, eta = 0.
# They are regular points of every operation (off the z axis), so they belong to the generic alphabet, not to the boundary one.
PLANE2 = [("phi0", (1.25, 0.0)), ("phipi", (-0.875, 0.0)), ("phi+h", (0.0, 1.625)), ("phi-h", (0.0, -0.5625))]
PLANE3 = [("phi0", (1.25, 0.0, 0.6875)), ("phipi", (-0.875, 0.0, -1.125)), ("phi+h", (0.0, 1.625, 0.4375)), ("phi-h", (0.0, -0.5625, -2.25)), ("eta0", (1.5, -0.75, 0.0))]


class Vec:
    """phi_turns != 0 marks a *non-canonical* storage: when the vector is stored in a rho-phi system its azimuth is
    stored as atan2(y, x) + phi_turns * 2 pi (the same geometric vector; a legitimate stored value outside [-pi, pi])."""

    __slots__ = ("name", "comps", "tags", "phi_turns")

    def __init__(self, name, comps, tags, phi_turns=0):
        self.name = name
        self.comps = tuple(float(c) for c in comps)
        self.tags = frozenset(tags)
        self.phi_turns = phi_turns

    @property
    def dim(self):
        return len(self.comps)

    def mp(self):
        return tuple(mpf(c) for c in self.comps)

    def has(self, tag):
        return tag in self.tags

    def __repr__(self):
        return f"{self.name}{self.comps}"


def vectors2(tier="quick", boundary=False):
    out = []
    pts = Q2_A + (Q2_B if tier == "thorough" else Q2_B[:2])
    for i, (x, y) in enumerate(pts):
        out.append(Vec(f"a{i}", (x, y), _tags2(x, y) | {"generic"}))
    out.append(Vec("wild+", (-0.9375, 1.375), {"generic", "wildphi", "q2"}, phi_turns=1))
    out.append(Vec("wild-", (1.0625, -0.5625), {"generic", "wildphi", "q4"}, phi_turns=-1))
    for name, c in PLANE2:
        out.append(Vec(name, c, {"generic", "plane"}))
    if boundary:
        for i, (x, y) in enumerate([(1.5, 0.0), (0.0, 2.25), (-0.75, 0.0), (0.0, -1.25)]):
            out.append(Vec(f"ax{i}", (x, y), {"boundary", "on_axis2"}))
        out.append(Vec("zero", (0.0, 0.0), {"boundary", "zero"}))
    return out


def vectors3(tier="quick", boundary=False):
    out = []
    pts = Q2_A + (Q2_B if tier == "thorough" else Q2_B[:2])
    zs = Z_A + (Z_B if tier == "thorough" else [])
    k = 0
    for i, (x, y) in enumerate(pts):
        for j, z in enumerate(zs):
            # vary z with the azimuthal point so octants hold unrelated values
            zz = z * (1 + 0.25 * (i % 3))
            out.append(Vec(f"b{k}", (x, y, zz), _tags2(x, y) | {"generic", "up" if zz > 0 else "down"}))
            k += 1
    out.append(Vec("wild+", (-0.9375, 1.375, -0.6875), {"generic", "wildphi", "q2", "down"}, phi_turns=1))
    out.append(Vec("wild-", (1.0625, -0.5625, 2.125), {"generic", "wildphi", "q4", "up"}, phi_turns=-1))
    for name, c in PLANE3:
        out.append(Vec(name, c, {"generic", "plane"} | ({"up"} if c[2] > 0 else {"down"} if c[2] < 0 else set())))
    # near the z axis (rho = 2^-10 |z|), both hemispheres: theta/eta conditioning
    for j, z in enumerate([1.75, -2.5]):
        r = abs(z) / 1024
        out.append(Vec(f"nearaxis{j}", (r * 0.6, -r * 0.8, z), {"generic", "near_axis", "up" if z > 0 else "down"}))
    if boundary:
        out.append(Vec("equator", (1.5, -0.75, 0.0), {"boundary", "equator"}))
        out.append(Vec("onaxis+", (0.0, 0.0, 1.25), {"boundary", "on_zaxis"}))
        out.append(Vec("onaxis-", (0.0, 0.0, -2.5), {"boundary", "on_zaxis"}))
        out.append(Vec("zero", (0.0, 0.0, 0.0), {"boundary", "zero", "on_zaxis"}))
    return out


def vectors4(tier="quick", boundary=False, kinds=("timelike", "fast", "spacelike", "spacelike_tltz", "negtime")):
    """4D alphabet: every 3D point with several time components.

    timelike       t = 1.25..1.6 |p|    forward, moderate gamma
    fast           t = |p| (1 + 2^-9)   forward, gamma ~ 16: near the light cone
    spacelike      |z| < t < |p|        space-like, Mt2 > 0
    spacelike_tltz 0 < t < |z|          space-like with t^2 < z^2 (Mt2 < 0)
    negtime        t < 0                representable in t storage only
    """
    out = []
    base = [v for v in vectors3(tier) if not v.has("near_axis") and not v.has("wildphi") and not v.has("plane")]
    if tier != "thorough":
        base = base[::2] + [base[1], base[7]]
    base = base + [v for v in vectors3(tier) if v.has("near_axis")]
    k = 0
    for i, v in enumerate(base):
        x, y, z = v.comps
        m = math.sqrt(x * x + y * y + z * z)
        near = v.has("near_axis")
        for kind in kinds:
            if kind == "timelike":
                t = _dy(m * (1.25 + 0.125 * (i % 4))) + 1 / 64
            elif kind == "fast":
                t = _dy(m * (1 + 2.0**-9), 12) + 2.0**-12
            elif kind == "spacelike":
                if near:
                    continue
                lo, hi = abs(z), m
                t = _dy(lo + (hi - lo) * (0.4 + 0.1 * (i % 3)), 8)
                if not (lo < t < hi):
                    continue
            elif kind == "spacelike_tltz":
                t = _dy(abs(z) * (0.3 + 0.1 * (i % 4)), 8)
                if not (0 < t < abs(z)):
                    continue
            elif kind == "negtime":
                if i % 2:
                    continue
                t = -(_dy(m * 1.5) + 1 / 32)
            else:
                raise ValueError(kind)
            tags = set(v.tags) | {kind}
            if kind in ("timelike", "fast"):
                tags.add("forward_timelike")
            out.append(Vec(f"c{k}", (x, y, z, t), tags))
            k += 1
    out.append(Vec("wild+", (-0.9375, 1.375, -0.6875, 2.75), {"generic", "wildphi", "timelike", "forward_timelike", "down"}, phi_turns=1))
    out.append(Vec("wild-", (1.0625, -0.5625, 2.125, 3.5), {"generic", "wildphi", "timelike", "forward_timelike", "up"}, phi_turns=-1))
    for i, (name, c) in enumerate(PLANE3):
        m = math.sqrt(sum(x * x for x in c))
        if i == 3:
            t = _dy(abs(c[2]) + (m - abs(c[2])) * 0.5, 8)  # one space-like member (|z| < t < |p|)
            out.append(Vec(name, c + (t,), {"generic", "plane", "spacelike"}))
        else:
            out.append(Vec(name, c + (_dy(m * 1.375) + 1 / 64,), {"generic", "plane", "timelike", "forward_timelike"}))
    if boundary:
        # exactly light-like: Pythagorean quadruple (3,4,12,13)/8 and sign variants
        out.append(Vec("light0", (0.375, 0.5, 1.5, 1.625), {"boundary", "lightlike"}))
        out.append(Vec("light1", (-1.5, 0.375, -0.5, 1.625), {"boundary", "lightlike"}))
        out.append(Vec("tzero", (1.5, -0.75, 0.875, 0.0), {"boundary", "t_zero", "spacelike"}))
        out.append(Vec("rest", (0.0, 0.0, 0.0, 2.5), {"boundary", "at_rest", "on_zaxis"}))
        out.append(Vec("zero", (0.0, 0.0, 0.0, 0.0), {"boundary", "zero", "on_zaxis"}))
    return out


STRATA_TAGS = ("q1", "q2", "q3", "q4", "up", "down", "timelike", "fast", "spacelike", "spacelike_tltz", "negtime", "near_axis", "wildphi", "plane")


def representatives(vs, n, tags=STRATA_TAGS):
    """A sub-alphabet of about n vectors that still holds at least one vector of every stratum present in vs: every k-th vector,
    then one more for each tag not yet covered (quick tiers must thin out values, not strata)."""
    vs = list(vs)
    if len(vs) <= n:
        return vs
    pick = vs[:: max(1, len(vs) // n)][:n]
    for tag in tags:
        if not any(v.has(tag) for v in pick):
            pick += [v for v in vs if v.has(tag)][:1]
    return pick


def vectors(dim, tier="quick", boundary=False, **kw):
    return {2: vectors2, 3: vectors3, 4: vectors4}[dim](tier, boundary, **kw)


# ---- second operands, built relative to a first operand ------------------------------
def partners(dim, tier="quick"):
    """Independent generic second operands (other quadrants / hemispheres, one whose
    azimuth differs from typical first operands by more than pi)."""
    if dim == 2:
        pts = [(-0.875, 1.625), (2.125, -0.6875), (-1.8125, -0.15625)]
        if tier == "thorough":
            pts += [(0.4375, 1.0625)]
        return [Vec(f"p{i}", p, _tags2(*p) | {"generic"}) for i, p in enumerate(pts)]
    if dim == 3:
        pts = [(-0.875, 1.625, -0.5625), (2.125, -0.6875, 1.1875), (-1.8125, -0.15625, 2.375)]
        if tier == "thorough":
            pts += [(0.4375, 1.0625, -3.125)]
        return [Vec(f"p{i}", p, _tags2(p[0], p[1]) | {"generic", "up" if p[2] > 0 else "down"}) for i, p in enumerate(pts)]
    pts = [
        ((-0.875, 1.625, -0.5625, 2.5), "timelike"),
        ((2.125, -0.6875, 1.1875, 2.546875), "fast"),
        ((-1.8125, -0.15625, 2.375, 2.75), "spacelike"),
    ]
    if tier == "thorough":
        pts += [((0.4375, 1.0625, -3.125, 4.5), "timelike"), ((0.75, -1.25, 0.5, -2.25), "negtime")]
    out = []
    for i, (p, kind) in enumerate(pts):
        tags = _tags2(p[0], p[1]) | {"generic", kind, "up" if p[2] > 0 else "down"}
        if kind in ("timelike", "fast"):
            tags.add("forward_timelike")
        out.append(Vec(f"p{i}", p, tags))
    return out


# ---- scalars ----------------------------------------------------------------------
ANGLES_Q = [0.3125, -2.5, 4.0, -7.0]  # all quadrants, > pi, < -2 pi
ANGLES_T = ANGLES_Q + [1.75, -0.8125, 9.5]
FACTORS_Q = [2.0, -0.5]
FACTORS_T = [2.0, -0.5, 1.0, -1.0, 0.34375, -3.25]
BETAS_Q = [0.5, -0.25]
BETAS_T = [0.5, -0.25, 0.96875, -0.9990234375, 0.0078125]


def gammas(betas):
    """gamma values matching the betas exactly is impossible in dyadics; the gamma
    alphabet is independent: |gamma| >= 1 of both signs."""
    return [1.25, -2.5] if len(betas) <= 2 else [1.25, -2.5, 1.0009765625, 16.0, -1.5]


EULER_TRIPLES_Q = [(0.3125, -2.5, 4.0)]
EULER_TRIPLES_T = [(0.3125, -2.5, 4.0), (1.75, 0.0, -0.8125), (-7.0, 0.4375, 2.25)]
EULER_ORDERS = ["zxz", "xyx", "yzy", "zyz", "xzx", "yxy", "xyz", "xzy", "yxz", "yzx", "zxy", "zyx"]

MATRIX2 = {"xx": 1.25, "xy": -0.5, "yx": 0.75, "yy": 2.0}
MATRIX3 = {"xx": 1.25, "xy": -0.5, "xz": 0.375, "yx": 0.75, "yy": 2.0, "yz": -1.5, "zx": -0.25, "zy": 1.125, "zz": 0.625}
MATRIX4 = dict(MATRIX3, xt=0.875, yt=-0.3125, zt=1.75, tx=-0.625, ty=0.4375, tz=0.1875, tt=2.25)


def unit_quaternion(axis, angle):
    """(cos a/2, n sin a/2) at 60 digits for a dyadic axis and angle."""
    import mpmath

    ax = [mpf(c) for c in axis]
    n = mpmath.sqrt(sum(c * c for c in ax))
    h = mpf(angle) / 2
    s = mpmath.sin(h)
    return (mpmath.cos(h), ax[0] / n * s, ax[1] / n * s, ax[2] / n * s)


QUAT_SPECS_Q = [((0.5, -1.25, 2.0), 1.75)]
QUAT_SPECS_T = [((0.5, -1.25, 2.0), 1.75), ((-1.0, 0.25, 0.375), -4.0)]

TOLERANCES = [0.0, 1e-5, 0.25]
