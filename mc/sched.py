"""ScheduleExplorer — a hand-rolled, preemption-bounded explorer for real threads.

Each thread runs a short program over shared operands.  A ``sys.settrace`` function turns
every ``line`` event in a frame whose file lies under the vector source root into a
scheduling point; one semaphore per thread is the baton, so exactly one thread runs at a
time.  The default policy lets the running thread continue; a deviation is a
*preemption*.  ``explore`` enumerates every schedule with at most ``bound`` preemptions by
replaying recorded choice prefixes (the guidance's explore(prefix) shape); any divergence
of the point sequence under the same prefix is a hard error.

Imports are atomic: while a frame of importlib._bootstrap is active in a thread, and in
module-level code, no scheduling point is taken, so the per-module import lock is never
held across a hand-off.
"""

from __future__ import annotations

import os
import sys
import threading
import time

from . import env

ROOT = os.path.join(env.VECTOR_SRC, "vector") + os.sep
WATCHDOG_S = 120


class Divergence(RuntimeError):
    pass


class Execution:
    """One complete execution under a given choice prefix."""

    def __init__(self, programs, prefix, granularity="line"):
        self.programs = programs
        self.n = len(programs)
        self.prefix = list(prefix)
        self.granularity = granularity
        self.sems = [threading.Semaphore(0) for _ in range(self.n)]
        self.done_sem = threading.Semaphore(0)
        self.finished = [False] * self.n
        self.started = [False] * self.n
        self.results = [None] * self.n
        self.errors = [None] * self.n
        self.choices = []  # choice index taken at each decision
        self.points = []  # per decision: dict(running, enabled, label, forced)
        self.labels = []  # label of every scheduling point reached (for the divergence check)
        self.import_depth = [0] * self.n
        self.failure = None
        self.lock = threading.Lock()

    # ------------------------------------------------------------------ tracing
    def make_tracer(self, tid):
        ex = self

        def local(frame, event, arg):
            if event == "line" and ex.import_depth[tid] == 0:
                ex.point(tid, (frame.f_code.co_filename[len(ROOT):], frame.f_lineno))
            return local

        def local_entry(frame, event, arg):
            # function-entry granularity: one point per call of a vector function
            return None

        def import_local(frame, event, arg):
            if event == "return":
                ex.import_depth[tid] -= 1
            return import_local

        def tracer(frame, event, arg):
            if event != "call":
                return None
            fn = frame.f_code.co_filename
            if fn.startswith("<frozen importlib") or "importlib" + os.sep + "_bootstrap" in fn:
                ex.import_depth[tid] += 1
                return import_local
            if fn.startswith(ROOT) and frame.f_code.co_name != "<module>" and ex.import_depth[tid] == 0:
                if ex.granularity == "entry":
                    ex.point(tid, (fn[len(ROOT):], frame.f_code.co_name))
                    return None
                return local
            return None

        return tracer

    # ------------------------------------------------------------------ scheduling
    def enabled_after(self, running):
        """canonical order: the running thread first if still enabled, then ascending ids"""
        rest = [t for t in range(self.n) if not self.finished[t] and t != running]
        if running is not None and not self.finished[running]:
            return [running] + rest
        return rest

    def decide(self, running, label):
        enabled = self.enabled_after(running)
        self.labels.append((running, label))
        if len(enabled) <= 1:
            return enabled[0] if enabled else None
        i = len(self.choices)
        if i < len(self.prefix):
            c = self.prefix[i]
            if c >= len(enabled):
                raise Divergence(f"choice {c} out of range at decision {i} (enabled {enabled})")
        else:
            c = 0
        self.choices.append(c)
        self.points.append({"running": running, "enabled": enabled, "label": label, "still_enabled": running is not None and not self.finished[running]})
        return enabled[c]

    def point(self, tid, label):
        try:
            nxt = self.decide(tid, label)
        except Divergence as e:
            self.failure = e
            nxt = tid
        if nxt != tid:
            self.sems[nxt].release()
            self._wait(tid)

    def _wait(self, tid):
        if not self.sems[tid].acquire(timeout=WATCHDOG_S):
            self.failure = self.failure or RuntimeError(f"watchdog: thread {tid} was never resumed")
            raise SystemExit

    def thread_main(self, tid):
        self._wait(tid)
        self.started[tid] = True
        sys.settrace(self.make_tracer(tid))
        try:
            self.results[tid] = self.programs[tid]()
        except SystemExit:
            pass
        except BaseException as e:  # noqa: BLE001
            self.errors[tid] = e
        finally:
            sys.settrace(None)
            self.finished[tid] = True
            try:
                nxt = self.decide(tid, ("<end>", tid))
            except Divergence as e:
                self.failure = e
                nxt = None
                rest = [t for t in range(self.n) if not self.finished[t]]
                nxt = rest[0] if rest else None
            if nxt is None:
                self.done_sem.release()
            else:
                self.sems[nxt].release()

    def run(self):
        threads = [threading.Thread(target=self.thread_main, args=(t,), daemon=True) for t in range(self.n)]
        for t in threads:
            t.start()
        # the initial decision: which thread starts (choice among all, not a preemption)
        first = self.decide(None, ("<start>",))
        self.sems[first].release()
        if not self.done_sem.acquire(timeout=WATCHDOG_S * 2):
            self.failure = self.failure or RuntimeError("watchdog: execution did not finish")
        for t in threads:
            t.join(timeout=5)
        if self.failure:
            raise self.failure
        return self

    def preemptions_before(self, i):
        """number of preemptions among decisions [0, i)"""
        k = 0
        for j in range(i):
            p = self.points[j]
            if p["still_enabled"] and self.choices[j] != 0:
                k += 1
        return k


def explore(make_programs, bound, check, granularity="line", max_executions=None, runner=None, first_slice=None):
    """Enumerate all schedules with at most `bound` preemptions.

    make_programs() -> (list of callables, context) builds fresh programs / operands for
    every execution (operands must not be shared between executions).
    check(execution, context) is called on every complete execution.
    runner(prefix) -> Execution may be supplied to run executions elsewhere (fresh process).
    first_slice = (k, n): explore only the first-level deviations at decision indices i with i % n == k (the
    default schedule itself is run by every slice); the union over k = 0..n-1 is the whole bounded space.
    Returns statistics."""
    stats = {"executions": 0, "decisions_max": 0, "points_max": 0, "preemption_bound": bound, "capped": False, "with_preemption": 0}

    def run(prefix):
        if runner is not None:
            return runner(prefix)
        programs, ctx = make_programs()
        x = Execution(programs, prefix, granularity).run()
        x.ctx = ctx
        return x

    def rec(prefix, parent_labels):
        if max_executions is not None and stats["executions"] >= max_executions:
            stats["capped"] = True
            return
        x = run(prefix)
        stats["executions"] += 1
        stats["decisions_max"] = max(stats["decisions_max"], len(x.points))
        stats["points_max"] = max(stats["points_max"], len(x.labels))
        if any(p["still_enabled"] and c != 0 for p, c in zip(x.points, x.choices)):
            stats["with_preemption"] += 1
        # divergence check: decisions made under the replayed prefix must be the recorded ones
        if parent_labels is not None:
            k = len(prefix) - 1
            mine = [(p["running"], p["label"]) for p in x.points[:k]]
            if mine != parent_labels[:k]:
                raise Divergence(f"replay of prefix {prefix} diverged: {mine[-3:]} vs {parent_labels[:k][-3:]}")
        check(x, getattr(x, "ctx", None))
        labels = [(p["running"], p["label"]) for p in x.points]
        for i in range(len(prefix), len(x.points)):
            if first_slice is not None and not prefix and i % first_slice[1] != first_slice[0]:
                continue  # this shard only owns the first-level deviations with i = k (mod n)
            p = x.points[i]
            cost = x.preemptions_before(i)
            for alt in range(1, len(p["enabled"])):
                c = cost + (1 if p["still_enabled"] else 0)
                if c > bound:
                    continue
                rec(x.choices[:i] + [alt], labels)

    rec([], None)
    return stats
