"""Helpers for the metamorphic-law checks (C09, C10, C11): build operands at the exact
(MP, 60 digits) or float64 object layer, read results back to Cartesian, compare."""

from __future__ import annotations

import mpmath
from mpmath import mpf

from . import lattice as L
from . import model as G
from . import sweep as S
from .alphabet import Vec
from .mplib import MP_CLASS, OBJ_CLASS

TOL = {"L1": mpf(10) ** -40, "L2": mpf(10) ** -9}
MARGIN = {"L1": mpf(10) ** -30, "L2": mpf(10) ** -6}


class Skip(Exception):
    """operand or result not representable / not decidable: the case is skipped (counted)."""


def mk(layer, vec: Vec, system, flavor="generic"):
    s = S.stored(vec, system)
    if s is None:
        raise Skip("operand not representable")
    if layer == "L1":
        return L.build_object(MP_CLASS[(flavor, vec.dim)], system, s)
    return L.build_object(OBJ_CLASS[(flavor, vec.dim)], system, tuple(float(x) for x in s))


def num(layer, x):
    return mpf(x) if layer == "L1" else float(x)


def cart(obj):
    """Cartesian tuple (mpf) denoted by an object result; Skip when it denotes none."""
    system, st = L.system_of(obj)
    st = tuple(v if isinstance(v, mpf) else mpf(float(v)) for v in st)
    c = G.from_stored(system, st)
    if c is None:
        raise Skip("result denotes no finite vector")
    return c


def sc(x):
    return x if isinstance(x, mpf) else mpf(float(x))


def representable(c, system, scale, layer):
    m = MARGIN[layer] * scale
    if len(system) > 1 and system[1] in ("theta", "eta") and G.hyp(c[0], c[1]) < m:
        return False
    if len(system) > 2 and system[2] == "tau" and c[3] < m:
        return False
    return True


def need_repr(c, system, scale, layer):
    if not representable(c, system, scale, layer):
        raise Skip("exact result not representable in the result system")


def close(a, b, scale, layer):
    return S.close(sc(a), sc(b), scale, TOL[layer])


def vclose(a, b, scale, layer):
    return S.vec_close(a, b, scale, TOL[layer])


def scale_of(*vecs, extra=1.0):
    m = 1.0
    for v in vecs:
        for c in v.comps:
            m = max(m, abs(c))
    return mpf(max(1.0, m * m) * extra * 4)


def fmt(c):
    return [mpmath.nstr(x, 18) for x in c]
