"""./check front end: runs one property's bounded-exhaustive exploration, in parallel
shards, merges the results, writes evidence/<id>.json and replays, applies the
known-findings list and sets the exit code (0 held / 1 violation / 2 harness error)."""

from __future__ import annotations

import argparse
import fnmatch
import importlib
import json
import multiprocessing
import os
import re
import sys
import time
import traceback

from . import env
from .result import Result

MAX_VIOLATION_LINES = 40
# evidence/ and replays/ live under /verif unless VERIF_OUT redirects them (used by the
# mutation self-tests so that runs against mutated copies never touch the real evidence)
OUT_ROOT = os.environ.get("VERIF_OUT") or env.VERIF


def _load_known():
    path = os.path.join(env.VERIF, "known_findings.json")
    if not os.path.exists(path):
        return []
    with open(path) as fh:
        return json.load(fh).get("findings", [])


def _safe(name: str) -> str:
    import hashlib

    h = hashlib.sha1(name.encode()).hexdigest()[:8]
    return re.sub(r"[^A-Za-z0-9_.+=!-]+", "_", name)[:150] + "." + h


def _worker(args):
    modname, shard, tier = args
    try:
        mod = importlib.import_module(modname)
        t0 = time.time()
        prog = os.environ.get("VERIF_PROGRESS")
        if prog:
            with open(prog, "a") as fh:
                fh.write(f"{time.strftime('%H:%M:%S')} start pid={os.getpid()} {shard!r}\n")
        res = mod.run_shard(shard, tier)
        res.counters["shard_wall_s_max"] = time.time() - t0
        if prog:
            with open(prog, "a") as fh:
                fh.write(f"{time.strftime('%H:%M:%S')} done  pid={os.getpid()} {time.time() - t0:.1f}s {shard!r}\n")
        return ("ok", res)
    except BaseException:  # noqa: BLE001 - a crashing shard is a harness error
        return ("err", f"shard {shard!r}:\n{traceback.format_exc()}")


def main(argv=None):
    ap = argparse.ArgumentParser(prog="check")
    ap.add_argument("prop")
    ap.add_argument("--tier", default=os.environ.get("VERIF_TIER", "quick"), choices=["quick", "thorough"])
    ap.add_argument("--replay")
    ap.add_argument("--workers", type=int, default=int(os.environ.get("VERIF_WORKERS", "0")) or min(16, os.cpu_count() or 1))
    ap.add_argument("--only", help="restrict shards to those whose repr contains this text (debugging; evidence marks non-exhaustive)")
    ns = ap.parse_args(argv)
    pid = ns.prop
    seed = int(os.environ.get("VERIF_SEED", "0") or 0)
    t0 = time.time()
    try:
        env.bind()
        modname = f"mc.props.{pid}"
        mod = importlib.import_module(modname)
    except BaseException:  # noqa: BLE001
        traceback.print_exc()
        print(f"HARNESS-ERROR property={pid} cannot import the code under test or the check")
        return 2

    if ns.replay:
        return _replay(mod, pid, ns.replay)

    tier = ns.tier
    try:
        shards = list(mod.shards(tier))
    except BaseException:  # noqa: BLE001
        traceback.print_exc()
        print(f"HARNESS-ERROR property={pid} shard enumeration failed")
        return 2
    if ns.only:
        shards = [s for s in shards if ns.only in repr(s)]
    nsh = len(shards)
    # VERIF_SEED only rotates the order in which shards are processed (and which
    # explored cases are kept as samples); the explored set does not depend on it.
    if nsh:
        k = seed % nsh
        order = shards[k:] + shards[:k]
    else:
        order = []
    cap_s = float(os.environ.get("VERIF_CAP_S", getattr(mod, "CAP_S", {}).get(tier, 3600)))
    total = Result()
    errors = []
    done = 0
    capped = False
    workers = max(1, min(ns.workers, nsh or 1))
    serial = getattr(mod, "SERIAL", False) or workers == 1
    jobs = [(modname, s, tier) for s in order]
    if serial:
        it = map(_worker, jobs)
        pool = None
    else:
        ctx = multiprocessing.get_context("fork")
        pool = ctx.Pool(workers, maxtasksperchild=getattr(mod, "MAXTASKS", None))
        it = pool.imap_unordered(_worker, jobs, chunksize=1)
    try:
        while done < nsh:
            try:
                # poll: the cap must also end a run whose remaining shards never report (a worker killed from outside loses its task)
                status, payload = next(it) if pool is None else it.next(timeout=max(1.0, min(60.0, cap_s - (time.time() - t0) + 1.0)))
            except StopIteration:
                break
            except multiprocessing.TimeoutError:
                if time.time() - t0 > cap_s:
                    capped = True
                    break
                continue
            done += 1
            if status == "ok":
                total.merge(payload)
            else:
                errors.append(payload)
            if time.time() - t0 > cap_s and done < nsh:
                capped = True
                break
    finally:
        if pool is not None:
            pool.terminate()
            pool.join()

    # post-merge hook (cross-shard oracles: differential tables, vacuity guards)
    if hasattr(mod, "finalize") and not errors:
        try:
            mod.finalize(total, tier, complete=(not capped and not ns.only))
        except BaseException:  # noqa: BLE001
            errors.append("finalize:\n" + traceback.format_exc())

    wall = time.time() - t0
    known = [k for k in _load_known() if k.get("property") == pid]
    classes = total.violation_classes()
    new_classes = {}
    known_hits = {}
    for cls, v in classes.items():
        hit = None
        for k in known:
            if k.get("status", "known") != "known":
                continue  # fixed entries suppress nothing
            if fnmatch.fnmatchcase(cls, k["class"]):
                hit = k
                break
        if hit is not None:
            known_hits.setdefault(hit["class"], (hit, []))[1].append(cls)
        else:
            new_classes[cls] = v

    rdir = os.path.join(OUT_ROOT, "replays", pid)
    if os.path.isdir(rdir):  # replays of earlier runs are stale
        import shutil

        shutil.rmtree(rdir, ignore_errors=True)
    lines = []
    if new_classes:
        os.makedirs(rdir, exist_ok=True)
    for i, (cls, v) in enumerate(sorted(new_classes.items(), key=lambda kv: kv[1]["order"])):
        path = os.path.join(rdir, _safe(cls) + ".json")
        with open(path, "w") as fh:
            json.dump({"property": pid, "class": cls, "message": v["msg"], "count_in_class": v["count"], "case": v["case"], "tier": tier}, fh, indent=1, default=str)
        if i < MAX_VIOLATION_LINES:
            lines.append(f"VIOLATION property={pid} replay={path}  # {cls}: {v['msg'][:300]}")
    if len(new_classes) > MAX_VIOLATION_LINES:
        lines.append(f"# ... {len(new_classes) - MAX_VIOLATION_LINES} further violation classes written under {rdir}")

    exhaustive = (not capped) and (not errors) and (not ns.only)
    cov = total.coverage()
    cov["rule"] = getattr(mod, "RULE", "")
    cov["exhaustive"] = exhaustive
    cov["bounds"] = mod.bounds(tier) if hasattr(mod, "bounds") else {}
    cov["shards_total"] = nsh
    cov["shards_done"] = done
    cov["caps_hit"] = ([f"time cap {cap_s}s reached after {done}/{nsh} shards"] if capped else []) + total.caps
    cov["violation_classes_new"] = len(new_classes)
    cov["violation_classes_known"] = sum(len(c) for _, c in known_hits.values())
    cov["source"] = env.source_fingerprint()
    if not cov.get("samples"):
        cov["samples"] = [{"note": "no case explored"}]
    evidence = {
        "property_id": pid,
        "tier": tier,
        "seed": seed,
        "level": "model_checking",
        "coverage": cov,
        "assumptions": list(getattr(mod, "ASSUMPTIONS", [])),
        "wall_s": round(wall, 3),
        "violations": len(new_classes),
    }
    os.makedirs(os.path.join(OUT_ROOT, "evidence"), exist_ok=True)
    epath = os.path.join(OUT_ROOT, "evidence", f"{pid}.json")
    tmp = epath + ".tmp"
    with open(tmp, "w") as fh:
        json.dump(evidence, fh, indent=1, default=str)
    os.replace(tmp, epath)

    print(f"[{pid}/{tier}] shards={done}/{nsh} states={cov['states']} transitions={cov['transitions']} "
          f"traces_validated={cov['traces_validated_against_impl']} nontrivial={cov['distinct_nontrivial']} "
          f"exhaustive={exhaustive} wall={wall:.1f}s")
    for k, v in sorted(total.counters.items()):
        print(f"    {k} = {v}")
    for _, (k, clss) in sorted(known_hits.items()):
        print(f"KNOWN-FINDING: property={pid} {k['what']}  [{len(clss)} class(es) matching {k['class']}]")
    for ln in lines:
        print(ln)
    if errors:
        for e in errors[:5]:
            print("HARNESS-ERROR", e)
        print(f"HARNESS-ERROR property={pid} {len(errors)} shard(s) failed")
        return 2
    if capped:
        print(f"NOTE time cap hit: explored {done}/{nsh} shards (evidence marks exhaustive=false)")
    return 1 if new_classes else 0


def _replay(mod, pid, path):
    with open(path) as fh:
        rec = json.load(fh)
    case = rec["case"]
    print(f"replaying {pid} case from {path}\n  class: {rec.get('class')}\n  case: {json.dumps(case)[:600]}")
    outs = []
    for _ in range(2):  # replay twice: observations must be identical
        res = mod.replay(case)
        outs.append(sorted((c, v["msg"]) for c, v in res.violation_classes().items()))
    if outs[0] != outs[1]:
        print("HARNESS-ERROR replay is not deterministic:", outs)
        return 2
    if outs[0]:
        for c, m in outs[0]:
            print(f"VIOLATION property={pid} replay={path}  # {c}: {m}")
        return 1
    print("replay: no violation reproduced")
    return 0


if __name__ == "__main__":
    sys.exit(main())
