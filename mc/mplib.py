"""L1 — the exact layer.

``MpLib`` is an adapter exposing the NumPy-like names used by vector's compute
functions, over 60-digit mpmath numbers.  ``MPVectorObject*`` / ``MPMomentumObject*``
are *subclasses of the real object-backend classes* with ``lib = MpLib()``: every call
made on them goes through the real ``_methods`` → ``dispatch`` → ``dispatch_map`` →
variant function → ``_wrap_result`` path of the code under test, only the arithmetic is
carried out at 60 digits.
"""

from __future__ import annotations

import mpmath
from mpmath import mp, mpf

mp.dps = 60

from . import env  # noqa: E402

env.bind()

import vector  # noqa: E402
from vector.backends import object as vobj  # noqa: E402

NAN = mpf("nan")
INF = mpf("inf")
ZERO = mpf(0)


def _m(x):
    if isinstance(x, mpf):
        return x
    if isinstance(x, bool):
        return mpf(int(x))
    return mpf(x)


class MpLib:
    """NumPy-flavoured functions on mpf scalars, IEEE-like outside real domains."""

    pi = mp.pi + 0  # mpf at current precision
    inf = INF
    nan = NAN
    e = mp.e + 0

    def __repr__(self):
        return "MpLib(dps=60)"

    # --- domain-restricted functions return NaN like NumPy -------------------------
    def sqrt(self, x):
        x = _m(x)
        if mpmath.isnan(x) or x < 0:
            return NAN
        return mpmath.sqrt(x)

    def log(self, x):
        x = _m(x)
        if mpmath.isnan(x) or x < 0:
            return NAN
        if x == 0:
            return -INF
        return mpmath.log(x)

    def arccos(self, x):
        x = _m(x)
        if mpmath.isnan(x) or x < -1 or x > 1:
            return NAN
        return mpmath.acos(x)

    def arcsin(self, x):
        x = _m(x)
        if mpmath.isnan(x) or x < -1 or x > 1:
            return NAN
        return mpmath.asin(x)

    def arccosh(self, x):
        x = _m(x)
        if mpmath.isnan(x) or x < 1:
            return NAN
        return mpmath.acosh(x)

    def arctanh(self, x):
        x = _m(x)
        if mpmath.isnan(x) or x < -1 or x > 1:
            return NAN
        if x == 1:
            return INF
        if x == -1:
            return -INF
        return mpmath.atanh(x)

    # --- total functions --------------------------------------------------------------
    def sin(self, x):
        return mpmath.sin(_m(x))

    def cos(self, x):
        return mpmath.cos(_m(x))

    def tan(self, x):
        return mpmath.tan(_m(x))

    def sinh(self, x):
        return mpmath.sinh(_m(x))

    def cosh(self, x):
        return mpmath.cosh(_m(x))

    def tanh(self, x):
        return mpmath.tanh(_m(x))

    def exp(self, x):
        return mpmath.exp(_m(x))

    def arctan(self, x):
        return mpmath.atan(_m(x))

    def arcsinh(self, x):
        return mpmath.asinh(_m(x))

    def arctan2(self, y, x):
        return mpmath.atan2(_m(y), _m(x))

    def absolute(self, x):
        return abs(_m(x))

    abs = absolute

    def sign(self, x):
        x = _m(x)
        if mpmath.isnan(x):
            return NAN
        return mpf(1) if x > 0 else (mpf(-1) if x < 0 else ZERO)

    def copysign(self, a, b):
        a, b = _m(a), _m(b)
        # sign bit of b: mpf(-0) does not exist in mpmath, 0 counts as positive
        neg = (b < 0) if not mpmath.isnan(b) else False
        a = abs(a)
        return -a if neg else a

    def maximum(self, a, b):
        a, b = _m(a), _m(b)
        if mpmath.isnan(a) or mpmath.isnan(b):
            return NAN
        return a if a >= b else b

    def minimum(self, a, b):
        a, b = _m(a), _m(b)
        if mpmath.isnan(a) or mpmath.isnan(b):
            return NAN
        return a if a <= b else b

    def nan_to_num(self, x, copy=True, nan=0.0, posinf=None, neginf=None):
        x = _m(x)
        if mpmath.isnan(x):
            return _m(nan)
        if x == INF:
            return _m(posinf) if posinf is not None else mpf("1.7976931348623157e308")
        if x == -INF:
            return _m(neginf) if neginf is not None else mpf("-1.7976931348623157e308")
        return x

    def isclose(self, a, b, rtol=1e-05, atol=1e-08, equal_nan=False):
        a, b = _m(a), _m(b)
        if mpmath.isnan(a) or mpmath.isnan(b):
            return bool(equal_nan) and mpmath.isnan(a) and mpmath.isnan(b)
        if a == b:
            return True
        if mpmath.isinf(a) or mpmath.isinf(b):
            return False
        return bool(abs(a - b) <= _m(atol) + _m(rtol) * abs(b))

    def isnan(self, x):
        return bool(mpmath.isnan(_m(x)))

    def square(self, x):
        return _m(x) ** 2

    def where(self, c, a, b):
        return a if c else b


LIB = MpLib()


class MPVectorObject2D(vobj.VectorObject2D):
    __slots__ = ()
    lib = LIB


class MPMomentumObject2D(vobj.MomentumObject2D):
    __slots__ = ()
    lib = LIB


class MPVectorObject3D(vobj.VectorObject3D):
    __slots__ = ()
    lib = LIB


class MPMomentumObject3D(vobj.MomentumObject3D):
    __slots__ = ()
    lib = LIB


class MPVectorObject4D(vobj.VectorObject4D):
    __slots__ = ()
    lib = LIB


class MPMomentumObject4D(vobj.MomentumObject4D):
    __slots__ = ()
    lib = LIB


_G = {2: MPVectorObject2D, 3: MPVectorObject3D, 4: MPVectorObject4D}
_M = {2: MPMomentumObject2D, 3: MPMomentumObject3D, 4: MPMomentumObject4D}
for _d in (2, 3, 4):
    for _cls, _proj in ((_G[_d], _G), (_M[_d], _M)):
        _cls.ProjectionClass2D = _proj[2]
        _cls.ProjectionClass3D = _proj[3]
        _cls.ProjectionClass4D = _proj[4]
        _cls.GenericClass = _G[_d]
        _cls.MomentumClass = _M[_d]

MP_CLASS = {("generic", d): _G[d] for d in (2, 3, 4)}
MP_CLASS.update({("momentum", d): _M[d] for d in (2, 3, 4)})

# the float64 object classes, keyed the same way
OBJ_CLASS = {
    ("generic", 2): vector.VectorObject2D,
    ("generic", 3): vector.VectorObject3D,
    ("generic", 4): vector.VectorObject4D,
    ("momentum", 2): vector.MomentumObject2D,
    ("momentum", 3): vector.MomentumObject3D,
    ("momentum", 4): vector.MomentumObject4D,
}
