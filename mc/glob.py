"""M_glob — the process-wide state named by C20, the prior configurations, and the event
catalogue (public calls on every backend and wrapper branch, including calls that raise
or hit singular inputs, and the two registry events)."""

from __future__ import annotations

import decimal
import hashlib
import locale
import os
import pickle
import random
import sys
import warnings

import numpy as np

from . import env

env.bind()

import awkward as ak  # noqa: E402
import vector  # noqa: E402


def _errcall(kind, flag):  # a registered numpy error callback (identity is part of the state)
    pass


def snapshot():
    import vector.backends.awkward as vba

    return {
        "numpy.geterr": tuple(sorted(np.geterr().items())),
        "numpy.geterrcall": id(np.geterrcall()) if np.geterrcall() is not None else None,
        "numpy.printoptions": repr(sorted(np.get_printoptions().items(), key=lambda kv: kv[0])),
        "warnings.filters": (id(warnings.filters), tuple(repr(f) for f in warnings.filters)),
        "awkward.behavior": tuple(sorted((repr(k), id(v)) for k, v in ak.behavior.items())),
        "vector.behavior": tuple(sorted((repr(k), id(v)) for k, v in vba.behavior.items())),
        "vector._awkward_registered": vector._awkward_registered,
        "sys.recursionlimit": sys.getrecursionlimit(),
        "sys.switchinterval": sys.getswitchinterval(),
        "warnings.showwarning": id(warnings.showwarning),
        "warnings.defaultaction": getattr(warnings, "defaultaction", None),
        "random.state": hash(random.getstate()),
        "numpy.random.state": hashlib.sha1(np.random.get_state()[1].tobytes()).hexdigest()[:12] + f":{np.random.get_state()[2]}",
        "os.environ": hash(frozenset(os.environ.items())),
        "sys.path": tuple(sys.path),
        "decimal.context": repr(decimal.getcontext()),
        "float.repr/locale": locale.setlocale(locale.LC_NUMERIC),
    }


def _fmt_float(x):  # a user-installed print formatter (identity is part of the state)
    return f"{x:.2e}"


CONFIGS = {
    "default": {},
    "formatter": {"print": {"formatter": {"float_kind": _fmt_float}, "linewidth": 60}},
    "raise+error": {"seterr": {"all": "raise"}, "warnings": "error"},
    "warn+ignore": {"seterr": {"all": "warn"}, "warnings": "ignore"},
    "ignore+print": {"seterr": {"all": "ignore"}, "print": {"precision": 3, "suppress": True}},
    "mixed+call": {"seterr": {"divide": "raise", "over": "warn", "under": "ignore", "invalid": "call"}, "errcall": True, "warnings": "always"},
    "error+print": {"warnings": "error", "print": {"precision": 12, "linewidth": 40}},
    "raise": {"seterr": {"all": "raise"}},
    "warn": {"seterr": {"all": "warn"}},
    "print": {"seterr": {"divide": "print", "invalid": "print"}},
    "ignore-warnings": {"warnings": "ignore"},
    "module-filter": {"warnings": ("error", "numpy")},
    "log-call": {"seterr": {"all": "call"}, "errcall": True},
}


def apply_config(name):
    c = CONFIGS[name]
    if "seterr" in c:
        np.seterr(**c["seterr"])
    if c.get("errcall"):
        np.seterrcall(_errcall)
    if "warnings" in c:
        w = c["warnings"]
        if isinstance(w, tuple):
            warnings.filterwarnings(w[0], module=w[1])
        else:
            warnings.simplefilter(w)
    if "print" in c:
        np.set_printoptions(**c["print"])


# ----------------------------------------------------------------------------------- events
def _o4():
    return vector.obj(px=1.5, py=0.75, pz=0.875, E=2.5)


def _o4tau():
    return vector.obj(pt=1.5, phi=0.5, eta=0.25, mass=1.25)


def _o3():
    return vector.obj(x=0.5, y=-1.25, z=2.0)


def _n4():
    return vector.array({"x": np.array([1.5, -0.625, 0.0]), "y": np.array([0.75, 2.25, 0.0]), "z": np.array([0.875, -1.375, 0.0]), "t": np.array([2.5, 3.5, 0.0])})


def _n4m():
    return vector.array({"pt": np.array([1.5, 2.0]), "phi": np.array([0.5, -2.0]), "eta": np.array([0.25, -1.0]), "mass": np.array([1.25, 0.0])})


def _a4():
    return vector.Array([[{"x": 1.5, "y": 0.75, "z": 0.875, "t": 2.5}, {"x": -0.625, "y": 2.25, "z": -1.375, "t": 3.5}], [], [{"x": 0.0, "y": 0.0, "z": 0.0, "t": 0.0}]])


def _a3m():
    return vector.zip({"pt": ak.Array([[1.5, 2.0], []]), "phi": ak.Array([[0.5, -2.0], []]), "pz": ak.Array([[0.25, -1.0], []])})


class _PointArray(ak.Array):
    pass


_OWN_BEHAVIOR = {("*", "point"): _PointArray, "__typestr__point": "point"}


def _own_behavior_event():
    """the caller's arrays carry a behavior of their own (private entries): constructors and operations on them"""
    a = ak.Array([[{"x": 1.5, "y": 0.75}, {"x": -0.625, "y": 2.25}], []], behavior=dict(_OWN_BEHAVIOR))
    v = vector.Array(a)
    w = vector.zip({"x": ak.Array([1.0, 2.0], behavior=dict(_OWN_BEHAVIOR)), "y": ak.Array([3.0, 4.0], behavior=dict(_OWN_BEHAVIOR))})
    pts = ak.Array([{"u": 1.0}], with_name="point", behavior=dict(_OWN_BEHAVIOR))
    return (v.rho, (v + v).x, v.rotateZ(0.25), w.phi, type(pts).__name__, sorted(repr(k) for k in v.behavior if "point" in repr(k)))


class _BadTransform:
    def __getitem__(self, k):
        raise KeyError(k)


def _sympy_event():
    import sympy

    x, y, z, t = sympy.symbols("x y z t", real=True)
    v = vector.VectorSympy4D(x=x, y=y, z=z, t=t)
    return v.tau, v.to_rhophietatau(), v.boostX(beta=sympy.Rational(1, 2))


EVENTS = {
    # constructors
    "obj(xy)": lambda: vector.obj(x=1, y=2),
    "obj(ptphietamass)": _o4tau,
    "VectorObject3D(...)": lambda: vector.VectorObject3D(rho=1.0, phi=0.5, theta=1.0),
    "obj(bad names) TypeError": lambda: vector.obj(x=1, z=2),
    "obj(bool) TypeError": lambda: vector.obj(x=True, y=2),
    "array(dict)": _n4,
    "array(dtype)": lambda: vector.array([(1.0, 2.0), (3.0, 4.0)], dtype=[("px", float), ("py", float)]),
    "array(incomplete) raises": lambda: vector.array({"x": np.array([1.0]), "z": np.array([1.0])}),
    "Array(list)": _a4,
    "zip(dict)": _a3m,
    "Array/zip(arrays carrying their own behavior)": _own_behavior_event,
    "zip(bad) TypeError": lambda: vector.zip({"x": ak.Array([1.0]), "t": ak.Array([1.0])}),
    # object backend
    "obj.rho/.eta/.tau": lambda: (_o4().rho, _o4().eta, _o4().tau, _o4tau().t, _o4().Et, _o4tau().Mt),
    "obj.rotateZ+rotate_euler": lambda: (_o3().rotateZ(0.3), _o3().rotate_euler(0.1, 0.2, 0.3, "yzx")),
    "obj.add/sub/dot/cross": lambda: (_o4().add(_o4tau()), _o4() - _o4tau(), _o4() @ _o4tau(), _o3().cross(_o3().rotateX(1.0))),
    "obj.boost_p4/boostCM": lambda: (_o4().boost_p4(_o4tau()), _o4().boostCM_of(_o4tau()), _o4().boostZ(gamma=-2.0)),
    "obj.to_*": lambda: (_o4().to_rhophietatau(), _o3().to_Vector4D(mass=2.0), _o4().to_Vector2D(), _o4().like(_o3())),
    "obj ==/isclose": lambda: (_o4() == _o4(), _o4() != _o4tau(), _o4().isclose(_o4tau())),
    "obj singular (on axis, null)": lambda: (vector.obj(x=0.0, y=0.0, z=1.0).eta, vector.obj(x=0.0, y=0.0, z=0.0).unit(), vector.obj(x=3.0, y=4.0, z=0.0, t=5.0).gamma, vector.obj(x=3.0, y=4.0, z=0.0, t=0.0).beta),
    "obj.add(dimension mismatch) TypeError": lambda: _o4().add(_o3()),
    "obj / 0 ZeroDivisionError": lambda: _o4() / 0,
    "obj(rho=0).cottheta ZeroDivisionError": lambda: vector.obj(rho=0.0, phi=0.0, z=1.25).cottheta,
    "obj.transform2D(bad) KeyError": lambda: _o3().transform2D(_BadTransform()),
    "obj.boostX() TypeError": lambda: _o4().boostX(),
    "obj in-place": lambda: _inplace(),
    "obj.__array__/asanyarray": lambda: (np.asanyarray(_o4tau()), np.asarray(_o3())),
    "pickle(obj)": lambda: pickle.loads(pickle.dumps(_o4tau())),
    "repr(obj)": lambda: (repr(_o4()), repr(_n4()), repr(_a4())),
    "repr/str(large arrays)": lambda: (repr(_n_large()), str(_n_large()), repr(_n_large().to_rhophietatau()), repr(vector.Array([{"x": float(i), "y": 2.0 * i, "z": -1.0 * i, "t": 10.0 + i} for i in range(12)])), repr(_n_large()[:0])),
    # the same *numbers* in two different coordinate systems (their coordinate NamedTuples compare equal although they are of
    # different kinds): a value-keyed cache anywhere in the object backend makes the second of these depend on the first
    "obj(x=1,y=2,z=3,t=4) forms": lambda: _same_numbers(vector.obj(x=1.0, y=2.0, z=3.0, t=4.0)),
    "obj(rho=1,phi=2,eta=3,tau=4) forms": lambda: _same_numbers(vector.obj(rho=1.0, phi=2.0, eta=3.0, tau=4.0)),
    "obj(pt=1,phi=2,theta=3,mass=4) forms": lambda: _same_numbers(vector.obj(pt=1.0, phi=2.0, theta=3.0, mass=4.0)),
    # numpy backend
    "np.rho/.eta/.tau": lambda: (_n4().rho, _n4().eta, _n4().tau, _n4m().t, _n4m().Mt, _n4().rapidity),
    "np.rotate/scale/unit": lambda: (_n4().rotateX(0.3), _n4().scale(-2.0), _n4().unit(), _n4m().unit(), _n4().to_beta3()),
    "np.add/dot/boost": lambda: (_n4() + _n4(), _n4().dot(_n4()), _n4().boost_p4(_n4m()), _n4m().boostCM_of_p4(_n4m())),
    "np delta*/predicates (rows in the x-y plane and at the origin)": lambda: (_n4().deltaeta(_n4()[::-1]), _n4().deltaphi(_n4()[::-1]), _n4().deltaangle(_n4()[::-1]), _n4().deltaR2(_n4()[::-1]), _n4().deltaRapidityPhi(_n4()[::-1]),
                                                                               _n4().is_parallel(_n4()[::-1]), _n4().is_perpendicular(_n4()[::-1]), _n4().is_timelike(), _n4().to_rhophietatau().deltaeta(_n4()), _n4().costheta, _n4().cottheta, _n4().theta, _n4().beta, _n4().gamma),
    "ak delta*/predicates": lambda: (_a4().deltaeta(_a4()), _a4().deltaangle(_a4()), _a4().deltaR(_a4()), _a4().is_antiparallel(_a4()), _a4().costheta, _a4().cottheta, _a4().beta),
    "np x obj": lambda: (_n4().add(_o4()), _o4tau().subtract(_n4m()), _n4().deltaR(_o3())),
    "np.to_*": lambda: (_n4().to_rhophietatau(), _n4m().to_xyzt(), _n4().to_Vector3D(), _n4().to_Vector2D().to_Vector4D(z=1.0, t=2.0)),
    "np ==/isclose/allclose": lambda: (_n4() == _n4(), np.isclose(_n4(), _n4()), np.allclose(_n4(), _n4()), _n4().allclose(_n4())),
    "np.sum/count_nonzero": lambda: (np.sum(_n4()), _n4().sum(axis=0, keepdims=True), np.count_nonzero(_n4()), np.sum(_n4m(), axis=0)),
    "np indexing/pickle": lambda: (_n4()[0], _n4()[1:], _n4()["x"], _n4m()["energy"] if False else _n4m()["mass"], pickle.loads(pickle.dumps(_n4m()))),
    "np / 0 raises": lambda: _n4() / 0,
    "np * inf, np / tiny": lambda: (_n4() * np.inf, _n4() / 1e-320, _n4().scale(np.nan)),
    "np.add(dimension mismatch) TypeError": lambda: _n4().add(_n4().to_Vector3D()),
    "np.sum(where=) ValueError": lambda: np.sum(_n4(), where=True),
    "np setitem": lambda: _np_setitem(),
    "np.transform3D(bad) KeyError": lambda: _n4().transform3D(_BadTransform()),
    # awkward backend
    "ak.rho/.eta/.tau": lambda: (_a4().rho, _a4().eta, _a4().tau, _a3m().p, _a4().rapidity),
    "ak.rotate/scale/unit": lambda: (_a4().rotateY(0.3), _a4().scale(-2.0), _a4().unit(), _a3m().unit()),
    "ak.add/dot/boost": lambda: (_a4() + _a4(), _a4().dot(_a4()), _a4().boost_p4(_a4()), _a4().boostCM_of_beta3(_o3().scale(0.125))),
    "ak x obj / np": lambda: (_a4().add(_o4()), _o4().add(_a4()), vector.Array([{"x": 1.0, "y": 2.0}, {"x": 3.0, "y": 4.0}]) + vector.array({"px": np.array([1.0, 2.0]), "py": np.array([0.0, 1.0])})),
    "ak.to_*": lambda: (_a4().to_rhophietatau(), _a3m().to_xyz(), _a4().to_Vector3D(), _a3m().to_Vector4D(mass=1.0)),
    "ak ==/isclose": lambda: (_a4() == _a4(), _a4().isclose(_a4()), _a4().allclose(_a4())),
    "ak.sum/count": lambda: (ak.sum(_a4(), axis=1), ak.sum(_a4(), axis=None), ak.count(_a4(), axis=1), ak.count_nonzero(_a4(), axis=1)),
    "ak record ops": lambda: (_a4()[0, 0].add(_a4()[0, 1]), _a4()[0, 0].rho, _a4()[0, 1].boostCM_of_p4(_a4()[0, 0]), _a4()[0, 0] + _o4()),
    "ak record == AssertionError": lambda: _a4()[0, 0] == _a4()[0, 1],
    "ak @ NotImplementedError": lambda: _a4() @ _a4(),
    "ak.add(dimension mismatch) TypeError": lambda: _a4().add(_a3m()),
    "obj(tau).boost_p4(ak) TypeError": lambda: _o4tau().boost_p4(_a4()),
    "ak pickle/to_list": lambda: (pickle.loads(pickle.dumps(_a4())), _a4().to_list(), ak.to_numpy(_a4().rho[0])),
    # sympy backend
    "sympy": _sympy_event,
    # the same operation with scalars that compare equal but are of different kinds (2 == 2.0 == Integer(2)): expressions differ
    "sympy scale(2) int": lambda: _sympy_scale(2),
    "sympy scale(2.0) float": lambda: _sympy_scale(2.0),
    "sympy scale(Integer(2))": lambda: _sympy_scale(__import__("sympy").Integer(2)),
    # registries
    "register_awkward()": lambda: vector.register_awkward(),
    "register_numba()": lambda: vector.register_numba(),
}
REGISTRY = {"register_awkward()", "register_numba()"}


def _same_numbers(o):
    return (np.asarray(o), np.asanyarray(o), o.to_xyzt(), o.to_rhophietatau(), o.x, o.rho, o.z, o.eta, o.theta, o.t, o.tau, o.mag, -o, o * 2, o.rotateZ(0.5), o.to_Vector3D(), o.to_Vector2D(),
            repr(o), pickle.loads(pickle.dumps(o)), o == o, o.isclose(o))


def _n_large():
    k = np.arange(12, dtype=np.float64)
    return vector.array({"px": 1.5 + k, "py": 0.75 - k, "pz": 0.875 * k, "E": 20.0 + k})


def _sympy_scale(k):
    import sympy

    x, y, z = sympy.symbols("x y z", real=True)
    v = vector.VectorSympy3D(x=x, y=y, z=z)
    return v.scale(k), v.rotateZ(k), v * k


def _inplace():
    v = _o4()
    v += _o4tau()
    v *= 2
    v.pt = 3.0
    v.mass = 1.0
    return v


def _np_setitem():
    a = _n4m()
    a["pt"] = np.array([5.0, 6.0])
    a[:1] = np.array([(1.0, 2.0, 3.0, 4.0)], dtype=[("rho", float), ("phi", float), ("eta", float), ("tau", float)])
    return a
