"""Reference models, written from the documentation and kept boring.

M_conv : exact conversion between a *geometric vector* (Cartesian tuple of mpf) and its
         stored coordinates in any of the 20 systems, plus the representability predicate.
M_geo  : each operation's documented definition on Cartesian tuples (never looks at how a
         vector is stored, hence independent of all compute variants).
"""

from __future__ import annotations

import mpmath
from mpmath import mp, mpf

mp.dps = 60

PI = mp.pi + 0
NAN = mpf("nan")
ZERO = mpf(0)
ONE = mpf(1)


def M(x):
    return x if isinstance(x, mpf) else mpf(x)


def hyp(*c):
    return mpmath.sqrt(sum((M(v) ** 2 for v in c), ZERO))


# ------------------------------------------------------------------------- M_conv
def representable(g, system) -> bool:
    """Can the geometric vector g be stored in `system` (the proviso of C01)?"""
    if len(system) > 1 and system[1] in ("theta", "eta"):
        if g[0] == 0 and g[1] == 0:
            return False  # on the z axis (or the zero vector): theta/eta need rho > 0
    if len(system) > 2 and system[2] == "tau":
        if g[3] < 0:
            return False  # tau storage denotes t >= 0 only
    return True


def tau_of(g):
    m2 = g[0] ** 2 + g[1] ** 2 + g[2] ** 2
    t2 = g[3] ** 2 - m2
    s = mpmath.sqrt(abs(t2))
    return -s if t2 < 0 else s


def to_stored(g, system):
    """Stored coordinate values of geometric vector g in `system` (exact to 60 digits)."""
    x, y = g[0], g[1]
    if system[0] == "xy":
        out = [x, y]
    else:
        out = [hyp(x, y), mpmath.atan2(y, x)]
    if len(system) > 1:
        z = g[2]
        if system[1] == "z":
            out.append(z)
        elif system[1] == "theta":
            out.append(mpmath.atan2(hyp(x, y), z))
        else:
            out.append(mpmath.asinh(z / hyp(x, y)))
    if len(system) > 2:
        if system[2] == "t":
            out.append(g[3])
        else:
            out.append(tau_of(g))
    return tuple(out)


def from_stored(system, s):
    """Cartesian tuple denoted by stored values (None where they denote no real vector)."""
    try:
        if system[0] == "xy":
            x, y = M(s[0]), M(s[1])
            rho = None
        else:
            rho, phi = M(s[0]), M(s[1])
            x, y = rho * mpmath.cos(phi), rho * mpmath.sin(phi)
        out = [x, y]
        if len(system) > 1:
            l = M(s[2])
            if system[1] == "z":
                z = l
            else:
                if rho is None:
                    rho = hyp(x, y)
                if system[1] == "theta":
                    z = rho * mpmath.cos(l) / mpmath.sin(l)
                else:
                    z = rho * mpmath.sinh(l)
            out.append(z)
        if len(system) > 2:
            if system[2] == "t":
                out.append(M(s[3]))
            else:
                tau = M(s[3])
                t2 = (tau**2 if tau >= 0 else -(tau**2)) + out[0] ** 2 + out[1] ** 2 + out[2] ** 2
                if t2 < 0:
                    return None
                out.append(mpmath.sqrt(t2))
        for v in out:
            if not mpmath.isfinite(v):
                return None
        return tuple(out)
    except (ZeroDivisionError, ValueError):
        return None


# --------------------------------------------------------------------------- M_geo
def wrap_pi(a):
    """into [-pi, pi) by the documented 'rectify' convention; the boundary value +-pi is
    compared modulo 2 pi by the callers that meet it."""
    return (a + PI) % (2 * PI) - PI


def rho(g):
    return hyp(g[0], g[1])


def mag(g):
    return hyp(g[0], g[1], g[2])


def mag2(g):
    return g[0] ** 2 + g[1] ** 2 + g[2] ** 2


def tau2(g):
    return g[3] ** 2 - mag2(g)


def dot(a, b):
    n = min(len(a), len(b))
    if n == 2:
        return a[0] * b[0] + a[1] * b[1]
    if n == 3:
        return a[0] * b[0] + a[1] * b[1] + a[2] * b[2]
    return a[3] * b[3] - a[0] * b[0] - a[1] * b[1] - a[2] * b[2]


def cross(a, b):
    return (a[1] * b[2] - a[2] * b[1], a[2] * b[0] - a[0] * b[2], a[0] * b[1] - a[1] * b[0])


def rot_axis_matrix(axis, angle):
    """Active right-handed rotation by `angle` about unit vector along `axis` (Rodrigues)."""
    n = mag(axis)
    ux, uy, uz = axis[0] / n, axis[1] / n, axis[2] / n
    c, s = mpmath.cos(angle), mpmath.sin(angle)
    C = 1 - c
    return [
        [c + ux * ux * C, ux * uy * C - uz * s, ux * uz * C + uy * s],
        [uy * ux * C + uz * s, c + uy * uy * C, uy * uz * C - ux * s],
        [uz * ux * C - uy * s, uz * uy * C + ux * s, c + uz * uz * C],
    ]


AXES = {"x": (ONE, ZERO, ZERO), "y": (ZERO, ONE, ZERO), "z": (ZERO, ZERO, ONE)}


def matmul(A, B):
    n = len(A)
    return [[sum((A[i][k] * B[k][j] for k in range(n)), ZERO) for j in range(n)] for i in range(n)]


def apply(A, v):
    n = len(A)
    return tuple(sum((A[i][k] * v[k] for k in range(n)), ZERO) for i in range(n))


def euler_matrix(phi, theta, psi, order):
    """rotate_euler(phi, theta, psi, 'abc') = R_a(-psi) . R_b(-theta) . R_c(-phi): the
    Wikipedia matrix A(a1) B(a2) C(a3) with ROOT's re-definition of the angles stated in
    the module comment of rotate_euler.py (a1 = -psi, a2 = -theta, a3 = -phi)."""
    a, b, c = order.lower()
    return matmul(matmul(rot_axis_matrix(AXES[a], -psi), rot_axis_matrix(AXES[b], -theta)), rot_axis_matrix(AXES[c], -phi))


def quaternion_matrix(u, i, j, k):
    """Rotation matrix of the quaternion u + i*I + j*J + k*K (ROOT Math::Quaternion,
    valid as a rotation for unit quaternions)."""
    return [
        [u * u + i * i - j * j - k * k, 2 * (i * j - u * k), 2 * (i * k + u * j)],
        [2 * (i * j + u * k), u * u - i * i + j * j - k * k, 2 * (j * k - u * i)],
        [2 * (i * k - u * j), 2 * (j * k + u * i), u * u - i * i - j * j + k * k],
    ]


def boost_matrix(beta3):
    """Active boost by velocity beta3 acting on (x, y, z, t)."""
    bx, by, bz = beta3
    b2 = bx * bx + by * by + bz * bz
    g = 1 / mpmath.sqrt(1 - b2)
    if b2 == 0:
        k = ZERO
    else:
        k = (g - 1) / b2
    return [
        [1 + k * bx * bx, k * bx * by, k * bx * bz, g * bx],
        [k * by * bx, 1 + k * by * by, k * by * bz, g * by],
        [k * bz * bx, k * bz * by, 1 + k * bz * bz, g * bz],
        [g * bx, g * by, g * bz, g],
    ]


def with_rest(head, g):
    """Cartesian tuple whose leading components are `head`, the rest taken from g."""
    return tuple(head) + tuple(g[len(head):])


class Undefined(Exception):
    """The documented definition is not finite / not defined at this point."""


def _need(cond):
    if not cond:
        raise Undefined


# Each entry: name -> function(operands: list of Cartesian tuples, scalars: dict) -> value.
# Values: mpf scalar, bool, or Cartesian tuple.


def g_x(v, s):
    return v[0][0]


def g_y(v, s):
    return v[0][1]


def g_z(v, s):
    return v[0][2]


def g_t(v, s):
    return v[0][3]


def g_rho(v, s):
    return rho(v[0])


def g_rho2(v, s):
    return v[0][0] ** 2 + v[0][1] ** 2


def g_phi(v, s):
    _need(v[0][0] != 0 or v[0][1] != 0)
    return mpmath.atan2(v[0][1], v[0][0])


def g_theta(v, s):
    m = mag(v[0])
    _need(m != 0)
    return mpmath.acos(v[0][2] / m)


def g_eta(v, s):
    r = rho(v[0])
    _need(r != 0)
    return mpmath.asinh(v[0][2] / r)


def g_costheta(v, s):
    m = mag(v[0])
    _need(m != 0)
    return v[0][2] / m


def g_cottheta(v, s):
    r = rho(v[0])
    _need(r != 0)
    return v[0][2] / r


def g_mag(v, s):
    return mag(v[0])


def g_mag2(v, s):
    return mag2(v[0])


def g_t2(v, s):
    return v[0][3] ** 2


def g_tau2(v, s):
    return tau2(v[0])


def g_tau(v, s):
    return tau_of(v[0])


def g_beta(v, s):
    _need(v[0][3] != 0)
    return mag(v[0]) / v[0][3]


def g_gamma(v, s):
    ta = tau_of(v[0])
    _need(ta != 0)
    return v[0][3] / ta


def g_rapidity(v, s):
    t, z = v[0][3], v[0][2]
    _need(t - z != 0 and (t + z) / (t - z) > 0)
    return mpmath.log((t + z) / (t - z)) / 2


def g_Et(v, s):
    m = mag(v[0])
    _need(m != 0)
    return v[0][3] * rho(v[0]) / m


def g_Et2(v, s):
    return g_Et(v, s) ** 2


def g_Mt2(v, s):
    return v[0][3] ** 2 - v[0][2] ** 2


def g_Mt(v, s):
    m2 = g_Mt2(v, s)
    _need(m2 >= 0)
    return mpmath.sqrt(m2)


def g_deltaphi(v, s):
    a, b = v
    _need((a[0] != 0 or a[1] != 0) and (b[0] != 0 or b[1] != 0))
    return wrap_pi(mpmath.atan2(a[1], a[0]) - mpmath.atan2(b[1], b[0]))


def g_deltaeta(v, s):
    return g_eta([v[0]], s) - g_eta([v[1]], s)


def g_deltaR2(v, s):
    return g_deltaphi(v, s) ** 2 + g_deltaeta(v, s) ** 2


def g_deltaR(v, s):
    return mpmath.sqrt(g_deltaR2(v, s))


def g_deltaangle(v, s):
    a, b = v
    ma, mb = mag(a), mag(b)
    _need(ma != 0 and mb != 0)
    c = (a[0] * b[0] + a[1] * b[1] + a[2] * b[2]) / (ma * mb)
    c = max(min(c, ONE), -ONE)
    return mpmath.acos(c)


def g_deltaRapidityPhi2(v, s):
    return g_deltaphi(v, s) ** 2 + (g_rapidity([v[0]], s) - g_rapidity([v[1]], s)) ** 2


def g_deltaRapidityPhi(v, s):
    return mpmath.sqrt(g_deltaRapidityPhi2(v, s))


def g_dot(v, s):
    return dot(v[0], v[1])


def g_add(v, s):
    return tuple(a + b for a, b in zip(v[0], v[1]))


def g_subtract(v, s):
    return tuple(a - b for a, b in zip(v[0], v[1]))


def g_scale(v, s):
    f = M(s["factor"])
    return tuple(c * f for c in v[0])


def _scale_part(n):
    def fn(v, s):
        f = M(s["factor"])
        return with_rest([c * f for c in v[0][:n]], v[0])

    return fn


def _neg_part(n):
    def fn(v, s):
        return with_rest([-c for c in v[0][:n]], v[0])

    return fn


def g_cross(v, s):
    return cross(v[0], v[1])


def g_unit(v, s):
    a = v[0]
    if len(a) == 2:
        n = rho(a)
    elif len(a) == 3:
        n = mag(a)
    else:
        n = abs(tau_of(a))
    _need(n != 0)
    return tuple(c / n for c in a)


def g_rotateZ(v, s):
    a = M(s["angle"])
    x, y = v[0][0], v[0][1]
    c, sn = mpmath.cos(a), mpmath.sin(a)
    return with_rest([c * x - sn * y, sn * x + c * y], v[0])


def g_rotateX(v, s):
    return with_rest(apply(rot_axis_matrix(AXES["x"], M(s["angle"])), v[0][:3]), v[0])


def g_rotateY(v, s):
    return with_rest(apply(rot_axis_matrix(AXES["y"], M(s["angle"])), v[0][:3]), v[0])


def g_rotate_axis(v, s):
    axis = v[1]
    _need(mag(axis) != 0)
    return with_rest(apply(rot_axis_matrix(axis[:3], M(s["angle"])), v[0][:3]), v[0])


def g_rotate_euler(v, s):
    R = euler_matrix(M(s["phi"]), M(s["theta"]), M(s["psi"]), s["order"])
    return with_rest(apply(R, v[0][:3]), v[0])


def g_rotate_nautical(v, s):
    R = euler_matrix(M(s["roll"]), M(s["pitch"]), M(s["yaw"]), "zyx")
    return with_rest(apply(R, v[0][:3]), v[0])


def g_rotate_quaternion(v, s):
    R = quaternion_matrix(M(s["u"]), M(s["i"]), M(s["j"]), M(s["k"]))
    return with_rest(apply(R, v[0][:3]), v[0])


def _transform(n):
    names = "xyzt"[:n]

    def fn(v, s):
        m = s["matrix"]
        A = [[M(m[a + b]) for b in names] for a in names]
        return with_rest(apply(A, v[0][:n]), v[0])

    return fn


def g_to_beta3(v, s):
    a = v[0]
    _need(a[3] != 0)
    return (a[0] / a[3], a[1] / a[3], a[2] / a[3])


def g_boost_beta3(v, s):
    b = v[1][:3]
    _need(b[0] ** 2 + b[1] ** 2 + b[2] ** 2 < 1)
    return apply(boost_matrix(b), v[0])


def g_boost_p4(v, s):
    p = v[1]
    _need(p[3] != 0)
    b = (p[0] / p[3], p[1] / p[3], p[2] / p[3])
    _need(b[0] ** 2 + b[1] ** 2 + b[2] ** 2 < 1)
    return apply(boost_matrix(b), v[0])


def g_boostCM_of_beta3(v, s):
    b = tuple(-c for c in v[1][:3])
    _need(b[0] ** 2 + b[1] ** 2 + b[2] ** 2 < 1)
    return apply(boost_matrix(b), v[0])


def g_boostCM_of_p4(v, s):
    p = v[1]
    _need(p[3] != 0)
    b = (-p[0] / p[3], -p[1] / p[3], -p[2] / p[3])
    _need(b[0] ** 2 + b[1] ** 2 + b[2] ** 2 < 1)
    return apply(boost_matrix(b), v[0])


def _boost_axis(i):
    def fn(v, s):
        if "beta" in s:
            be = M(s["beta"])
        else:
            g = M(s["gamma"])
            _need(abs(g) >= 1)
            be = mpmath.sqrt(1 - 1 / g**2)
            if g < 0:
                be = -be
        _need(abs(be) < 1)
        b = [ZERO, ZERO, ZERO]
        b[i] = be
        return apply(boost_matrix(b), v[0])

    return fn


def g_is_timelike(v, s):
    return tau2(v[0]) > 0


def g_is_spacelike(v, s):
    return tau2(v[0]) < 0


def g_is_lightlike(v, s):
    return tau2(v[0]) == 0


def _cosangle(v):
    a, b = v
    n = min(len(a), len(b), 3)
    a, b = a[:n], b[:n]
    na = mpmath.sqrt(sum((c * c for c in a), ZERO))
    nb = mpmath.sqrt(sum((c * c for c in b), ZERO))
    _need(na != 0 and nb != 0)
    return sum((p * q for p, q in zip(a, b)), ZERO) / (na * nb)


def g_is_parallel(v, s):
    return _cosangle(v) > 1 - M(s["tolerance"])


def g_is_antiparallel(v, s):
    return _cosangle(v) < -1 + M(s["tolerance"])


def g_is_perpendicular(v, s):
    return abs(_cosangle(v)) < M(s["tolerance"])


def g_isclose(v, s):
    # used with clearly-close / clearly-far pairs only (C01); the stored-coordinate
    # contract is C12's
    a, b = v
    rtol, atol = M(s.get("rtol", 1e-5)), M(s.get("atol", 1e-8))
    return all(abs(p - q) <= atol + rtol * abs(q) for p, q in zip(a, b))


GEO = {
    "x": g_x, "y": g_y, "z": g_z, "t": g_t, "rho": g_rho, "rho2": g_rho2, "phi": g_phi,
    "theta": g_theta, "eta": g_eta, "costheta": g_costheta, "cottheta": g_cottheta,
    "mag": g_mag, "mag2": g_mag2, "t2": g_t2, "tau": g_tau, "tau2": g_tau2,
    "beta": g_beta, "gamma": g_gamma, "rapidity": g_rapidity,
    "Et": g_Et, "Et2": g_Et2, "Mt": g_Mt, "Mt2": g_Mt2,
    "deltaphi": g_deltaphi, "deltaeta": g_deltaeta, "deltaR": g_deltaR, "deltaR2": g_deltaR2,
    "deltaangle": g_deltaangle, "deltaRapidityPhi": g_deltaRapidityPhi,
    "deltaRapidityPhi2": g_deltaRapidityPhi2,
    "dot": g_dot, "add": g_add, "subtract": g_subtract, "scale": g_scale, "scale4D": g_scale,
    "scale2D": _scale_part(2), "scale3D": _scale_part(3),
    "neg2D": _neg_part(2), "neg3D": _neg_part(3), "neg4D": _neg_part(4),
    "cross": g_cross, "unit": g_unit,
    "rotateZ": g_rotateZ, "rotateX": g_rotateX, "rotateY": g_rotateY,
    "rotate_axis": g_rotate_axis, "rotate_euler": g_rotate_euler,
    "rotate_nautical": g_rotate_nautical, "rotate_quaternion": g_rotate_quaternion,
    "transform2D": _transform(2), "transform3D": _transform(3), "transform4D": _transform(4),
    "to_beta3": g_to_beta3, "boost_beta3": g_boost_beta3, "boost_p4": g_boost_p4,
    "boostCM_of_beta3": g_boostCM_of_beta3, "boostCM_of_p4": g_boostCM_of_p4,
    "boostX": _boost_axis(0), "boostY": _boost_axis(1), "boostZ": _boost_axis(2),
    "is_timelike": g_is_timelike, "is_spacelike": g_is_spacelike, "is_lightlike": g_is_lightlike,
    "is_parallel": g_is_parallel, "is_antiparallel": g_is_antiparallel,
    "is_perpendicular": g_is_perpendicular, "isclose": g_isclose,
}
