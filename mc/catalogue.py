"""Hand-written catalogue: how to call each public operation and what it returns.

Joined at run time with the introspected members of the Vector/Momentum protocols:
a public name missing here is reported as *uncatalogued* in the evidence; a catalogued
name missing from the code is a violation (C05).
"""

from __future__ import annotations

from dataclasses import dataclass, field


@dataclass(frozen=True)
class Op:
    name: str
    dims: tuple  # dimensions of `self` the operation is offered on
    call: object  # f(v, others, scalars) -> result
    ret: str  # 'scalar' | 'bool' | 'vec'
    other: object = None  # None | 'same' | tuple of allowed dims of the second operand
    scalars: tuple = ()  # names of scalar-argument families
    model: str = ""  # key into model.GEO ('' = same as name)
    momentum_only: bool = False
    retdim: object = "self"  # 'self' | int | 'other'(unused)
    partial: int = 0  # n>0: only the first n Cartesian components are transformed and the
    #                   *stored* higher coordinates are passed through (documented exception
    #                   of C01 for scale2D/3D, transform2D/3D and their neg aliases)
    counted_other: bool = True  # does the second operand count for backend/flavor (False: rotate_axis)
    degree: int = 1  # homogeneity degree of the result in the operand scale (tolerances)
    variant: str = ""  # distinguishes several catalogue rows of one method (boostX beta/gamma)

    @property
    def key(self):
        return self.name + (f"[{self.variant}]" if self.variant else "")

    @property
    def geo(self):
        return self.model or self.name


def _prop(name):
    return lambda v, o, s: getattr(v, name)


def _m0(name):
    return lambda v, o, s: getattr(v, name)()


def _m1(name):
    return lambda v, o, s: getattr(v, name)(o[0])


OPS = []


def _add(*a, **k):
    OPS.append(Op(*a, **k))


# ---- accessors --------------------------------------------------------------------
for n in ("x", "y", "rho", "phi"):
    _add(n, (2, 3, 4), _prop(n), "scalar", degree=0 if n == "phi" else 1)
_add("rho2", (2, 3, 4), _prop("rho2"), "scalar", degree=2)
for n in ("z", "mag"):
    _add(n, (3, 4), _prop(n), "scalar")
for n in ("theta", "eta", "costheta", "cottheta"):
    _add(n, (3, 4), _prop(n), "scalar", degree=0)
_add("mag2", (3, 4), _prop("mag2"), "scalar", degree=2)
for n in ("t", "tau"):
    _add(n, (4,), _prop(n), "scalar")
for n in ("t2", "tau2"):
    _add(n, (4,), _prop(n), "scalar", degree=2)
for n in ("beta", "gamma", "rapidity"):
    _add(n, (4,), _prop(n), "scalar", degree=0)
for n, d in (("Et", 1), ("Et2", 2), ("Mt", 1), ("Mt2", 2)):
    _add(n, (4,), _prop(n), "scalar", momentum_only=True, degree=d)

# ---- unary vector-valued ---------------------------------------------------------
_add("unit", (2, 3, 4), _m0("unit"), "vec", degree=0)
_add("neg2D", (2, 3, 4), _prop("neg2D"), "vec", partial=2)
_add("neg3D", (3, 4), _prop("neg3D"), "vec", partial=3)
_add("neg4D", (4,), _prop("neg4D"), "vec")
_add("scale", (2, 3, 4), lambda v, o, s: v.scale(s["factor"]), "vec", scalars=("factor",))
_add("scale2D", (2, 3, 4), lambda v, o, s: v.scale2D(s["factor"]), "vec", scalars=("factor",), partial=2)
_add("scale3D", (3, 4), lambda v, o, s: v.scale3D(s["factor"]), "vec", scalars=("factor",), partial=3)
_add("scale4D", (4,), lambda v, o, s: v.scale4D(s["factor"]), "vec", scalars=("factor",))
_add("rotateZ", (2, 3, 4), lambda v, o, s: v.rotateZ(s["angle"]), "vec", scalars=("angle",))
_add("rotateX", (3, 4), lambda v, o, s: v.rotateX(s["angle"]), "vec", scalars=("angle",))
_add("rotateY", (3, 4), lambda v, o, s: v.rotateY(s["angle"]), "vec", scalars=("angle",))
_add("rotate_euler", (3, 4), lambda v, o, s: v.rotate_euler(s["phi"], s["theta"], s["psi"], s["order"]), "vec", scalars=("euler",))
_add("rotate_nautical", (3, 4), lambda v, o, s: v.rotate_nautical(s["yaw"], s["pitch"], s["roll"]), "vec", scalars=("nautical",))
_add("rotate_quaternion", (3, 4), lambda v, o, s: v.rotate_quaternion(s["u"], s["i"], s["j"], s["k"]), "vec", scalars=("quaternion",))
_add("transform2D", (2, 3, 4), lambda v, o, s: v.transform2D(s["matrix"]), "vec", scalars=("matrix2",), partial=2)
_add("transform3D", (3, 4), lambda v, o, s: v.transform3D(s["matrix"]), "vec", scalars=("matrix3",), partial=3)
_add("transform4D", (4,), lambda v, o, s: v.transform4D(s["matrix"]), "vec", scalars=("matrix4",))
for ax in "XYZ":
    _add(f"boost{ax}", (4,), (lambda a: lambda v, o, s: getattr(v, f"boost{a}")(beta=s["beta"]))(ax), "vec", scalars=("beta",), variant="beta")
    _add(f"boost{ax}", (4,), (lambda a: lambda v, o, s: getattr(v, f"boost{a}")(gamma=s["gamma"]))(ax), "vec", scalars=("gamma",), variant="gamma")
_add("to_beta3", (4,), _m0("to_beta3"), "vec", retdim=3, degree=0)
_add("is_timelike", (4,), lambda v, o, s: v.is_timelike(s["tolerance"]), "bool", scalars=("tol0",))
_add("is_spacelike", (4,), lambda v, o, s: v.is_spacelike(s["tolerance"]), "bool", scalars=("tol0",))
_add("is_lightlike", (4,), lambda v, o, s: v.is_lightlike(s["tolerance"]), "bool", scalars=("tol_light",))

# ---- binary ----------------------------------------------------------------------------
_add("dot", (2, 3, 4), _m1("dot"), "scalar", other="same", degree=2)
_add("add", (2, 3, 4), _m1("add"), "vec", other="same")
_add("subtract", (2, 3, 4), _m1("subtract"), "vec", other="same")
_add("deltaphi", (2, 3, 4), _m1("deltaphi"), "scalar", other=(2, 3, 4), degree=0)
for n in ("deltaeta", "deltaR", "deltaR2", "deltaangle"):
    _add(n, (3, 4), _m1(n), "scalar", other=(3, 4), degree=0)
for n in ("deltaRapidityPhi", "deltaRapidityPhi2"):
    _add(n, (4,), _m1(n), "scalar", other=(4,), degree=0)
_add("cross", (3,), _m1("cross"), "vec", other=(3,), retdim=3, degree=2)
_add("rotate_axis", (3, 4), lambda v, o, s: v.rotate_axis(o[0], s["angle"]), "vec", other=(3,), scalars=("angle",), counted_other=False)
_add("boost_p4", (4,), _m1("boost_p4"), "vec", other=(4,))
_add("boost_beta3", (4,), _m1("boost_beta3"), "vec", other=(3,))
_add("boost", (4,), _m1("boost"), "vec", other=(4,), model="boost_p4", variant="p4")
_add("boost", (4,), _m1("boost"), "vec", other=(3,), model="boost_beta3", variant="beta3")
_add("boostCM_of_p4", (4,), _m1("boostCM_of_p4"), "vec", other=(4,))
_add("boostCM_of_beta3", (4,), _m1("boostCM_of_beta3"), "vec", other=(3,))
_add("boostCM_of", (4,), _m1("boostCM_of"), "vec", other=(4,), model="boostCM_of_p4", variant="p4")
_add("boostCM_of", (4,), _m1("boostCM_of"), "vec", other=(3,), model="boostCM_of_beta3", variant="beta3")
for n in ("is_parallel", "is_antiparallel", "is_perpendicular"):
    _add(n, (2, 3, 4), (lambda nn: lambda v, o, s: getattr(v, nn)(o[0], s["tolerance"]))(n), "bool", other="same", scalars=("tol_angle",))
_add("isclose", (2, 3, 4), lambda v, o, s: v.isclose(o[0], s["rtol"], s["atol"]), "bool", other="same", scalars=("rtol_atol",))
_add("equal", (2, 3, 4), _m1("equal"), "bool", other="same")
_add("not_equal", (2, 3, 4), _m1("not_equal"), "bool", other="same")

# documented parameter names (vector._methods protocols of the pinned tree): the keyword form of every call
KWARGS = {
    "scale": [("factor", "s:factor")], "scale2D": [("factor", "s:factor")], "scale3D": [("factor", "s:factor")], "scale4D": [("factor", "s:factor")],
    "rotateZ": [("angle", "s:angle")], "rotateX": [("angle", "s:angle")], "rotateY": [("angle", "s:angle")],
    "rotate_euler": [("phi", "s:phi"), ("theta", "s:theta"), ("psi", "s:psi"), ("order", "s:order")],
    "rotate_nautical": [("yaw", "s:yaw"), ("pitch", "s:pitch"), ("roll", "s:roll")],
    "rotate_quaternion": [("u", "s:u"), ("i", "s:i"), ("j", "s:j"), ("k", "s:k")],
    "transform2D": [("obj", "s:matrix")], "transform3D": [("obj", "s:matrix")], "transform4D": [("obj", "s:matrix")],
    "is_timelike": [("tolerance", "s:tolerance")], "is_spacelike": [("tolerance", "s:tolerance")], "is_lightlike": [("tolerance", "s:tolerance")],
    "rotate_axis": [("axis", "o:0"), ("angle", "s:angle")],
    "boost_p4": [("p4", "o:0")], "boost_beta3": [("beta3", "o:0")], "boost": [("booster", "o:0")],
    "boostCM_of_p4": [("p4", "o:0")], "boostCM_of_beta3": [("beta3", "o:0")], "boostCM_of": [("booster", "o:0")],
    "is_parallel": [("other", "o:0"), ("tolerance", "s:tolerance")], "is_antiparallel": [("other", "o:0"), ("tolerance", "s:tolerance")], "is_perpendicular": [("other", "o:0"), ("tolerance", "s:tolerance")],
    "isclose": [("other", "o:0"), ("rtol", "s:rtol"), ("atol", "s:atol")],
}
for _n in ("dot", "add", "subtract", "deltaphi", "deltaeta", "deltaR", "deltaR2", "deltaangle", "deltaRapidityPhi", "deltaRapidityPhi2", "cross", "equal", "not_equal"):
    KWARGS[_n] = [("other", "o:0")]


def kwcall(op, v, others, s):
    """the call with every argument passed by its documented name, in reverse order"""
    kw = {}
    for name, src in reversed(KWARGS[op.name]):
        kind, key = src.split(":")
        kw[name] = others[int(key)] if kind == "o" else s[key]
    return getattr(v, op.name)(**kw)


BY_KEY = {op.key: op for op in OPS}
NAMES = {op.name for op in OPS}

# public names handled by dedicated checks rather than by the operation sweep
ELSEWHERE = {
    # conversions / dimension changes: C04
    "like", "to_Vector2D", "to_Vector3D", "to_Vector4D", "to_2D", "to_3D", "to_4D",
    # synonyms: C14
    "px", "py", "pt", "pt2", "pz", "pseudorapidity", "p", "p2", "E", "e", "energy", "E2", "e2", "energy2",
    "M", "m", "mass", "M2", "m2", "mass2", "et", "transverse_energy", "et2", "transverse_energy2",
    "mt", "transverse_mass", "mt2", "transverse_mass2",
    # structural
    "azimuthal", "longitudinal", "temporal", "lib",
}


def public_names():
    """Public members of the vector / momentum protocols, by introspection."""
    from vector import _methods as M

    names = set()
    for cls in (M.VectorProtocol, M.VectorProtocolPlanar, M.VectorProtocolSpatial, M.VectorProtocolLorentz,
                M.MomentumProtocolPlanar, M.MomentumProtocolSpatial, M.MomentumProtocolLorentz):
        for n in vars(cls):
            if not n.startswith("_"):
                names.add(n)
    return names


def uncatalogued():
    return sorted(n for n in public_names() if n not in NAMES and n not in ELSEWHERE and not n.startswith("to_"))


def missing_from_code():
    pub = public_names()
    return sorted(n for n in NAMES if n not in pub)
