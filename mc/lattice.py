"""The finite configuration lattice: coordinate systems, flavors, compute variants,
and builders / readers for object-backend vectors (float64 and mp)."""

from __future__ import annotations

import importlib
import itertools
import pkgutil

from . import env

env.bind()

import vector  # noqa: E402
from vector._methods import (  # noqa: E402
    AzimuthalRhoPhi,
    AzimuthalXY,
    LongitudinalEta,
    LongitudinalTheta,
    LongitudinalZ,
    TemporalT,
    TemporalTau,
    _aztype,
    _ltype,
    _ttype,
)
from vector.backends import object as vobj  # noqa: E402

AZ = ("xy", "rhophi")
LON = ("z", "theta", "eta")
TMP = ("t", "tau")

# systems as tuples of group names; canonical order: Cartesian first
SYS2 = [(a,) for a in AZ]
SYS3 = [(a, l) for a in AZ for l in LON]
SYS4 = [(a, l, t) for a in AZ for l in LON for t in TMP]
SYSTEMS = {2: SYS2, 3: SYS3, 4: SYS4}
CART = {2: ("xy",), 3: ("xy", "z"), 4: ("xy", "z", "t")}
FLAVORS = ("generic", "momentum")

AZ_NAMES = {"xy": ("x", "y"), "rhophi": ("rho", "phi")}
AZ_CLASS = {"xy": AzimuthalXY, "rhophi": AzimuthalRhoPhi}
LON_CLASS = {"z": LongitudinalZ, "theta": LongitudinalTheta, "eta": LongitudinalEta}
TMP_CLASS = {"t": TemporalT, "tau": TemporalTau}
CLASS_NAME = {v: k for d in (AZ_CLASS, LON_CLASS, TMP_CLASS) for k, v in d.items()}

AZ_OBJ = {"xy": vobj.AzimuthalObjectXY, "rhophi": vobj.AzimuthalObjectRhoPhi}
LON_OBJ = {"z": vobj.LongitudinalObjectZ, "theta": vobj.LongitudinalObjectTheta, "eta": vobj.LongitudinalObjectEta}
TMP_OBJ = {"t": vobj.TemporalObjectT, "tau": vobj.TemporalObjectTau}

MOMENTUM_NAME = {"x": "px", "y": "py", "rho": "pt", "z": "pz", "t": "E", "tau": "mass"}


def sysname(system) -> str:
    return "_".join(system)


def field_names(system, flavor="generic"):
    """Coordinate field names of a system, e.g. ('rho','phi','eta','tau')."""
    names = list(AZ_NAMES[system[0]])
    if len(system) > 1:
        names.append(system[1])
    if len(system) > 2:
        names.append(system[2])
    if flavor == "momentum":
        names = [MOMENTUM_NAME.get(n, n) for n in names]
    return tuple(names)


def sig_classes(system):
    """The dispatch-signature classes of a system."""
    out = [AZ_CLASS[system[0]]]
    if len(system) > 1:
        out.append(LON_CLASS[system[1]])
    if len(system) > 2:
        out.append(TMP_CLASS[system[2]])
    return tuple(out)


def build_object(cls, system, stored):
    """Instantiate an object-backend class from stored coordinate values (via coordinate
    objects, so no value conversion or type check touches them)."""
    kw = {"azimuthal": AZ_OBJ[system[0]](stored[0], stored[1])}
    if len(system) > 1:
        kw["longitudinal"] = LON_OBJ[system[1]](stored[2])
    if len(system) > 2:
        kw["temporal"] = TMP_OBJ[system[2]](stored[3])
    return cls(**kw)


def system_of(v):
    """(system tuple, stored values tuple) of any object-like vector result."""
    s = [CLASS_NAME[_aztype(v)]]
    vals = list(v.azimuthal.elements)
    if hasattr(v, "longitudinal"):
        s.append(CLASS_NAME[_ltype(v)])
        vals += list(v.longitudinal.elements)
        if hasattr(v, "temporal"):
            s.append(CLASS_NAME[_ttype(v)])
            vals += list(v.temporal.elements)
    return tuple(s), tuple(vals)


def discover_variants():
    """Every (module name, signature key) of every dispatch_map under vector._compute."""
    out = {}
    import vector._compute as comp

    for pkg in ("planar", "spatial", "lorentz"):
        p = importlib.import_module(f"vector._compute.{pkg}")
        for m in pkgutil.iter_modules(p.__path__):
            mod = importlib.import_module(f"vector._compute.{pkg}.{m.name}")
            dm = getattr(mod, "dispatch_map", None)
            if dm is not None:
                out[f"{pkg}.{m.name}"] = (mod, dm)
    return out


def signame(key) -> str:
    return ",".join(CLASS_NAME.get(k, repr(k)) if isinstance(k, type) else repr(k) for k in key)


class VariantCounter:
    """Counting proxies around every dispatch_map value: which table entries are reached
    through the public API.  Installed in-process by the harness (no source hook)."""

    def __init__(self):
        self.variants = discover_variants()
        self.hit = set()
        self.total = 0
        for mname, (mod, dm) in self.variants.items():
            for key, val in list(dm.items()):
                self.total += 1
                fn = val[0]
                dm[key] = (self._wrap(fn, (mname, signame(key))), *val[1:])

    def _wrap(self, fn, tag):
        hit = self.hit

        def proxy(*a, **k):
            hit.add(tag)
            return fn(*a, **k)

        proxy.__name__ = getattr(fn, "__name__", "variant")
        proxy.__wrapped__ = fn
        for attr in ("__awkward_transform_allowed__",):
            if hasattr(fn, attr):
                setattr(proxy, attr, getattr(fn, attr))
        return proxy

    def all_tags(self):
        return {(m, signame(k)) for m, (_, dm) in self.variants.items() for k in dm}


def sig_pairs(dimA, dimB, mode="all"):
    """Pairs of systems for binary operations.  mode 'all' = full product; 'diag' =
    each system with itself and with one fixed other system (Cartesian, or for the
    Cartesian system the fully polar one)."""
    A, B = SYSTEMS[dimA], SYSTEMS[dimB]
    if mode == "all":
        return list(itertools.product(A, B))
    out = []
    for s in A:
        partners = []
        if dimA == dimB:
            partners.append(s)
        partners.append(CART[dimB] if s != CART[dimA] or dimA != dimB else B[-1])
        if dimA != dimB:
            partners.append(B[-1])
        for p in partners:
            if (s, p) not in out:
                out.append((s, p))
    for p in B:  # every system appears as second operand too
        if not any(q == p for _, q in out):
            out.append((CART[dimA], p))
    return out
