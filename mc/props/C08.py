"""C08 — SymPy expressions agree with the numeric backends.

For every catalogued property / method x coordinate-system signature x flavor, the
operation is performed on VectorSympy / MomentumSympy vectors whose coordinates (and
scalar arguments) are real symbols; the resulting expression is lambdified to mpmath and
evaluated at every point of the *regular* alphabet (time-like, forward, off-axis,
tau >= 0, positive scale factor and gamma), and compared with the 60-digit object-backend
result at the same stored coordinates.
"""

from __future__ import annotations

import itertools
import operator

import mpmath
import sympy
from mpmath import mpf

from .. import alphabet as A
from .. import lattice as L
from .. import model as G
from .. import sweep as S
from ..alphabet import Vec
from ..catalogue import BY_KEY, OPS
from ..mplib import MP_CLASS
from ..result import Result

import vector  # noqa: E402

ID = "C08"
RULE = (
    "cases = operation x signature x flavor (one symbolic expression each) x point of the regular alphabet; states = expressions built by the SymPy backend, "
    "transitions = expression evaluations plus 60-digit object-backend calls, traces = coordinate / scalar values compared; non-trivial = a comparison at a point "
    "where the value is finite; distinct = distinct (operation, signature, flavor, point)"
)
ASSUMPTIONS = [
    "regular domain only: time-like forward vectors off the z axis, rho > 0, t > 0, tau >= 0, positive scale factor, gamma >= 1, |beta| < 1 - exactly the conventions (clamps, NaN replacement, sign / copysign) that vector._lib.SympyLib documents it does not express",
    "equal / not_equal (structural == on expressions, nothing to substitute into) are outside the claim; isclose (an exact sympy.Eq, no tolerance) is compared only on pairs whose numeric answer does not depend on the tolerance: identical stored coordinates, and clearly different vectors; the scale factor is passed as a number because SympyLib.sign is declared for numbers only",
    "expressions are evaluated with sympy.lambdify(..., 'mpmath') at 60 digits and compared to 1e-30 with the object backend driven at 60 digits (itself tied to the definitions by C01/C02)",
]
CAP_S = {"quick": 3000, "thorough": 14000}
EXCLUDE = {"equal", "not_equal"}
SYMCLS = {("generic", 2): vector.VectorSympy2D, ("generic", 3): vector.VectorSympy3D, ("generic", 4): vector.VectorSympy4D,
          ("momentum", 2): vector.MomentumSympy2D, ("momentum", 3): vector.MomentumSympy3D, ("momentum", 4): vector.MomentumSympy4D}
TOL = mpf(10) ** -30


def bounds(tier):
    return {"tier": tier, "signatures": "unary: all; binary: diagonal+cross" if tier == "quick" else "all", "points_per_expression": 4 if tier == "quick" else 10, "tolerance": "1e-30",
            "symbolic_scalars": ["angle", "phi", "theta", "psi", "yaw", "pitch", "roll", "beta", "gamma", "tolerance", "matrix entries", "quaternion components"]}


def shards(tier):
    out = []
    for op in OPS:
        if op.name in EXCLUDE:
            continue
        for dimA in op.dims:
            for dimB in S.second_dims(op, dimA):
                if dimB is not None and dimA == 4 and dimB == 4 and tier == "thorough":
                    for sa in L.SYSTEMS[4]:
                        out.append({"op": op.key, "dimA": dimA, "dimB": dimB, "sysA": list(sa)})
                else:
                    out.append({"op": op.key, "dimA": dimA, "dimB": dimB})
    for dim in (2, 3, 4):
        for sysx in L.SYSTEMS[dim]:
            out.append({"kind": "inplace", "dim": dim, "sys": list(sysx)})
    return out


def regular_vectors(dim, tier):
    vs = [v for v in A.vectors(dim, "thorough") if not (v.has("near_axis") or v.has("fast") or v.has("negtime") or v.has("spacelike") or v.has("spacelike_tltz") or v.has("boundary"))]
    n = 4 if tier == "quick" else 10
    step = max(1, len(vs) // n)
    return A.representatives(vs, n)


def scalar_points(op, tier):
    """(symbolic scalars dict, list of numeric assignments {symbol: value}) for an operation"""
    sy = {}
    vals = {}

    def sym(name, value):
        s = sympy.Symbol("s_" + name, real=True)
        sy[name] = s
        vals[s] = value
        return s

    for fam in op.scalars:
        if fam == "factor":
            sy["factor"] = 2  # numeric: SympyLib.sign is for numbers only
        elif fam == "angle":
            sym("angle", 0.3125)
        elif fam == "euler":
            sym("phi", 0.3125), sym("theta", -2.5), sym("psi", 4.0)
            sy["order"] = "yzx"
        elif fam == "nautical":
            sym("yaw", 0.3125), sym("pitch", -2.5), sym("roll", 4.0)
        elif fam == "quaternion":
            for n_, v_ in zip("uijk", (0.5, -0.5, 0.5, 0.5)):
                sym(n_, v_)
        elif fam.startswith("matrix"):
            m = {"matrix2": A.MATRIX2, "matrix3": A.MATRIX3, "matrix4": A.MATRIX4}[fam]
            sy["matrix"] = {k: sym("m" + k, v) for k, v in m.items()}
        elif fam == "beta":
            sym("beta", -0.25)
        elif fam == "gamma":
            sym("gamma", 1.25)
        elif fam == "rtol_atol":
            sy["rtol"], sy["atol"] = 1e-5, 1e-8  # numbers: SympyLib.isclose documents that it cannot express a tolerance
        elif fam in ("tol0",):
            sy["tolerance"] = 0
        elif fam in ("tol_light", "tol_angle"):
            sym("tolerance", 1e-5 if fam == "tol_light" else 0.25)
    return sy, vals


def mp_scalars_from(sy, vals):
    out = {}
    for k, v in sy.items():
        if k == "matrix":
            out[k] = {kk: mpf(vals[s]) for kk, s in v.items()}
        elif isinstance(v, sympy.Symbol):
            out[k] = mpf(vals[v])
        elif isinstance(v, str):
            out[k] = v
        else:
            out[k] = mpf(v)
    return out


ASSUME = {"+": {"positive": True}, "-": {"negative": True}, "nz": {"real": True, "nonzero": True}, "r": {"real": True}}


def _fits(value, mark):
    return value > 0 if mark == "+" else value < 0 if mark == "-" else value != 0 if mark == "nz" else True


def sym_vector(dim, system, flavor, tag, assume=None):
    names = L.field_names(system)
    syms = [sympy.Symbol(f"{n}{tag}", **(ASSUME[assume[i]] if assume else {"real": True})) for i, n in enumerate(names)]
    return SYMCLS[(flavor, dim)](**dict(zip(names, syms))), syms


def sign_patterns(dim, sa, tier):
    """assumption patterns for the first operand's symbols: the sign pattern of the stored coordinates of every regular point
    (symbols declared positive=True / negative=True), plus all-nonzero"""
    pats = []
    for v in regular_vectors(dim, tier):
        st = S.stored(v, sa)
        if st is None:
            continue
        p = tuple("+" if x > 0 else "-" if x < 0 else "r" for x in st)
        if p not in pats:
            pats.append(p)
    return pats + [tuple("nz" for _ in sa) + ("nz",) * (dim - len(sa))]


def run_expr(res: Result, op, sa, sb, flavor, tier, zero_index=None, assume=None):
    """assume = tuple of marks (+, -, nz, r) per stored coordinate of the first operand: its symbols carry the SymPy assumptions
    positive / negative / nonzero and the expression is evaluated at the regular points that satisfy them (an expression
    simplified under an assumption must still be the right one where the assumption holds).
    zero_index = i: the i-th stored coordinate of the first operand is the exact SymPy number 0 instead of a symbol (a *structural*
    zero, as in VectorSympy2D(x=x, y=0)); the expression is then evaluated at the alphabet points whose i-th stored coordinate is 0."""
    dimA = len(sa) + 1
    dimB = len(sb) + 1 if sb is not None else None
    case = {"op": op.key, "sysA": list(sa), "sysB": list(sb) if sb else None, "flavor": flavor}
    cls = f"{op.key}|{L.sysname(sa)}" + (f"|{L.sysname(sb)}" if sb else "") + f"|{flavor}" + ("" if zero_index is None else f"|zero[{L.field_names(sa)[zero_index]}]")
    va, syms_a = sym_vector(dimA, sa, flavor, "1", assume)
    if assume is not None:
        case["assume"] = list(assume)
        cls += "|assume[" + ",".join(assume) + "]"
    if zero_index is not None:
        case["zero_index"] = zero_index
        names_a = L.field_names(sa)
        coords = [sympy.Integer(0) if i == zero_index else s_ for i, s_ in enumerate(syms_a)]
        va = SYMCLS[(flavor, dimA)](**dict(zip(names_a, coords)))
        syms_a = [s_ for i, s_ in enumerate(syms_a) if i != zero_index]
    others, syms_b = [], []
    if sb is not None:
        vb, syms_b = sym_vector(dimB, sb, "generic", "2")
        others = [vb]
    sy, vals = scalar_points(op, tier)
    res.states += 1
    res.transitions += 1
    try:
        expr = op.call(va, others, sy)
    except Exception as e:  # noqa: BLE001
        res.violation(f"raises|{cls}", f"{op.key} on SymPy vectors raised {type(e).__name__}: {str(e).strip()[:200]}", case)
        return
    allsyms = list(syms_a) + list(syms_b) + list(vals.keys())
    # numeric points
    firsts = regular_vectors(dimA, tier)
    if zero_index is not None:
        firsts = [v for v in A.vectors(dimA, "thorough") if v.has("plane") and not v.has("spacelike") and S.stored(v, sa) is not None and S.stored(v, sa)[zero_index] == 0]
        if not firsts:
            return
    if assume is not None:
        firsts = [v for v in firsts if S.stored(v, sa) is not None and all(_fits(x, m) for x, m in zip(S.stored(v, sa), assume))]
        if not firsts:
            return
    if sb is None:
        pairs = [(a, None) for a in firsts]
    elif op.name == "isclose":
        # only pairs whose numeric answer does not depend on the tolerance: the very same stored coordinates (same system
        # only: True) and clearly different vectors (False); every quadrant / hemisphere occurs among the first operands
        bs = [p for p in A.partners(dimB, "thorough") if not (p.has("spacelike") or p.has("negtime") or p.has("fast"))]
        pairs = [(a, bs[i % len(bs)]) for i, a in enumerate(firsts)]
        if sa == sb:
            pairs += [(a, Vec("same", a.comps, {"same"})) for a in firsts]
    elif "boost" in op.name and dimB == 3:
        bs = S._beta3_partners("thorough")
        pairs = [(a, bs[i % 3]) for i, a in enumerate(firsts)]
    elif "boost" in op.name:
        bs = S._booster_p4("thorough")
        pairs = [(a, bs[i % len(bs)]) for i, a in enumerate(firsts)]
    else:
        bs = [p for p in A.partners(dimB, "thorough") if not (p.has("spacelike") or p.has("negtime") or p.has("fast"))]
        pairs = [(a, bs[i % len(bs)]) for i, a in enumerate(firsts)]
    # what to lambdify
    if op.ret == "vec":
        if not isinstance(expr, vector.backends.sympy.VectorSympy):
            res.violation(f"type|{cls}", f"{op.key} returned {type(expr).__name__}, not a SymPy vector", case)
            return
        rsys, rexprs = L.system_of(expr)
        rexprs = list(rexprs)
    else:
        rsys, rexprs = None, [expr]
    try:
        fns = [sympy.lambdify(allsyms, sympy.sympify(e), modules="mpmath") for e in rexprs]
    except Exception as e:  # noqa: BLE001
        res.violation(f"lambdify|{cls}", f"the expression for {op.key} cannot be evaluated: {type(e).__name__}: {str(e)[:160]}", case)
        return
    ms = mp_scalars_from(sy, vals)
    for a, b in pairs:
        sta = S.stored(a, sa)
        stb = S.stored(b, sb) if b is not None else ()
        if sta is None or stb is None:
            res.count("operand_not_representable")
            continue
        args = [x for i, x in enumerate(sta) if i != zero_index] + list(stb) + [mpf(vals[s]) for s in vals]
        oa = L.build_object(MP_CLASS[(flavor, dimA)], sa, sta)
        ob = L.build_object(MP_CLASS[("generic", dimB)], sb, stb) if b is not None else None
        res.transitions += 2
        try:
            ref = op.call(oa, [ob] if ob is not None else [], ms)
        except Exception:  # noqa: BLE001
            res.count("object_backend_raises")
            continue
        pcase = dict(case, a=list(a.comps), b=list(b.comps) if b is not None else None)
        try:
            got = [f(*args) for f in fns]
        except Exception as e:  # noqa: BLE001
            res.violation(f"evaluation|{cls}", f"evaluating the {op.key} expression raised {type(e).__name__}: {str(e)[:160]}", pcase)
            return
        if op.ret == "vec":
            osys, ost = L.system_of(ref)
            if osys != rsys or type(ref).__name__.replace("MP", "").replace("Object", "Sympy") != type(expr).__name__:
                res.violation(f"type|{cls}", f"{op.key}: SymPy result is {type(expr).__name__} in {rsys}, the object backend gives {type(ref).__name__} in {osys}", pcase)
                return
            want = list(ost)
            # the comparison is only meaningful where the *result* is in the regular domain too (a space-like or
            # backward result is stored through the sign conventions the symbolic backend documents it drops)
            if len(osys) > 2:
                c = G.from_stored(osys, tuple(x if isinstance(x, mpf) else mpf(x) for x in ost))
                if c is None or c[3] <= 0 or G.tau2(c) <= 0:
                    res.count("result_outside_regular_domain")
                    continue
        elif op.ret == "bool":
            res.traces += 1
            res.evaluations += 1
            if bool(got[0]) != bool(ref):
                res.violation(f"value|{cls}", f"{op.key}: expression evaluates to {bool(got[0])}, the object backend gives {bool(ref)}", pcase)
                return
            res.nontrivial += 1
            continue
        else:
            want = [ref]
        names = L.field_names(rsys) if rsys else [op.key]
        scale = S.case_scale(op, a, b, {k: v for k, v in {"beta": -0.25, "gamma": 1.25}.items() if k in sy})
        for nme, g, w in zip(names, got, want):
            res.traces += 1
            res.evaluations += 1
            try:
                g = mpf(g) if not isinstance(g, mpf) else g
            except Exception:  # noqa: BLE001
                g = mpmath.mpmathify(g)
            w = w if isinstance(w, mpf) else mpf(w)
            if mpmath.isnan(w) and mpmath.isnan(g):
                res.count("both_nan")
                continue
            ok = S.close(g, w, scale ** max(1, op.degree), TOL)
            if not ok and (nme == "phi" or op.name in ("phi", "deltaphi")):
                ok = S.angle_close(g, w, TOL)
            if not ok:
                res.violation(f"value|{cls}", f"{op.key}: {nme} evaluates to {mpmath.nstr(g, 25)}, the object backend gives {mpmath.nstr(w, 25)}", pcase)
                return
            res.nontrivial += 1


INPLACE = [("*=2", lambda v, w, f: operator.imul(v, f(2)), False), ("*=-2.5", lambda v, w, f: operator.imul(v, f(-2.5)), False), ("/=-4", lambda v, w, f: operator.itruediv(v, f(-4)), False),
           ("/=0.5", lambda v, w, f: operator.itruediv(v, f(0.5)), False), ("+=w", lambda v, w, f: operator.iadd(v, w), True), ("-=w", lambda v, w, f: operator.isub(v, w), True)]


def run_inplace(res: Result, dim, system, tier):
    """augmented assignment on SymPy vectors (they go through their own helper that re-stores the result in the target's
    coordinate system): the stored expressions afterwards, evaluated at the regular points, equal the stored values of a
    60-digit object vector after the same augmented assignment"""
    for flavor in ("generic", "momentum"):
        for oname, f, binary in INPLACE:
            for wsys in ([system, L.CART[dim]] if binary else [None]):
                res.states += 1
                res.transitions += 1
                case = {"inplace": oname, "sysA": list(system), "sysB": list(wsys) if wsys else None, "flavor": flavor, "dim": dim}
                cls = f"inplace|{oname}|{L.sysname(system)}" + (f"|{L.sysname(wsys)}" if wsys else "") + f"|{flavor}"
                va, syms_a = sym_vector(dim, system, flavor, "1")
                vb, syms_b = (sym_vector(dim, wsys, "generic", "2") if wsys else (None, []))
                try:
                    r = f(va, vb, lambda x: sympy.Rational(x).limit_denominator(16) if x != int(x) else sympy.Integer(int(x)))
                    rsys, rexprs = L.system_of(r)
                    fns = [sympy.lambdify(list(syms_a) + list(syms_b), sympy.sympify(e), modules="mpmath") for e in rexprs]
                except Exception as e:  # noqa: BLE001
                    res.violation(f"raises|{cls}", f"{oname} on a SymPy vector raised {type(e).__name__}: {str(e).strip()[:200]}", case)
                    continue
                if r is not va or rsys != tuple(system):
                    res.violation(f"type|{cls}", f"{oname} on a SymPy vector stored as {system} gave {'a new object' if r is not va else 'the same object'} stored as {rsys}", case)
                    continue
                firsts = regular_vectors(dim, tier)
                bs = [p for p in A.partners(dim, "thorough") if not (p.has("spacelike") or p.has("negtime") or p.has("fast"))]
                for i, a in enumerate(firsts):
                    b = bs[i % len(bs)] if wsys else None
                    sta = S.stored(a, system)
                    stb = S.stored(b, wsys) if b is not None else ()
                    if sta is None or stb is None:
                        res.count("operand_not_representable")
                        continue
                    oa = L.build_object(MP_CLASS[(flavor, dim)], system, sta)
                    ob = L.build_object(MP_CLASS[("generic", dim)], wsys, stb) if b is not None else None
                    res.transitions += 2
                    try:
                        ref = f(oa, ob, lambda x: mpf(x))
                    except Exception:  # noqa: BLE001
                        res.count("object_backend_raises")
                        continue
                    osys, ost = L.system_of(ref)
                    c = G.from_stored(osys, tuple(x if isinstance(x, mpf) else mpf(x) for x in ost))
                    if c is None or (dim == 4 and (c[3] <= 0 or G.tau2(c) <= 0)) or (dim >= 3 and G.hyp(c[0], c[1]) < mpf(10) ** -20):
                        res.count("result_outside_regular_domain")
                        continue
                    pcase = dict(case, a=list(a.comps), b=list(b.comps) if b is not None else None)
                    try:
                        got = [fn(*(list(sta) + list(stb))) for fn in fns]
                    except Exception as e:  # noqa: BLE001
                        res.violation(f"evaluation|{cls}", f"evaluating the stored expressions after {oname} raised {type(e).__name__}: {str(e)[:160]}", pcase)
                        break
                    bad = None
                    for nme, g, w in zip(L.field_names(osys), got, ost):
                        res.traces += 1
                        res.evaluations += 1
                        g = g if isinstance(g, mpf) else mpmath.mpmathify(g)
                        w = w if isinstance(w, mpf) else mpf(w)
                        ok = S.close(g, w, mpf(64), TOL) or (nme == "phi" and S.angle_close(g, w, TOL))
                        if not ok:
                            bad = f"{nme} evaluates to {mpmath.nstr(g, 25)}, the object backend stores {mpmath.nstr(w, 25)}"
                            break
                        res.nontrivial += 1
                    if bad:
                        res.violation(f"value|{cls}", f"after {oname}: {bad}", pcase)
                        break
    # derive-then-assign: a vector derived from another one (an operation that retains some coordinate group) shares no state with it
    import copy as _copy

    derive = [("rotateZ", lambda v, a: v.rotateZ(a)), ("scale2D", lambda v, a: v.scale2D(2)), ("copy.copy", lambda v, a: _copy.copy(v)), ("neg2D", lambda v, a: v.neg2D)]
    if dim >= 3:
        derive += [("rotateX", lambda v, a: v.rotateX(a)), ("scale3D", lambda v, a: v.scale3D(2)), ("to_Vector3D.like", lambda v, a: v.to_Vector3D().like(v) if dim == 4 else v.to_Vector2D().like(v)),
                   ("rotate_axis", lambda v, a: v.rotate_axis(vector.obj(x=0.5, y=-1.25, z=2.0), a))]
    if dim == 4:
        derive += [("boostZ", lambda v, a: v.boostZ(beta=sympy.Rational(1, 4))), ("to_own", lambda v, a: getattr(v, "to_" + "".join(L.field_names(system)))())]
    settable = ["x", "y", "rho", "phi"] + (["z", "theta", "eta"] if dim >= 3 else []) + (["t", "tau"] if dim == 4 else [])
    ang = sympy.Symbol("s_angle", real=True)
    new = sympy.Symbol("newvalue", real=True)
    for flavor in ("generic", "momentum"):
        for dname, f in derive:
            for name in settable:
                for direction in ("assign to the derived vector", "assign to the source vector"):
                    res.states += 1
                    res.transitions += 2
                    res.traces += 1
                    res.evaluations += 1
                    case = {"inplace": f"derive:{dname}", "sysA": list(system), "sysB": None, "flavor": flavor, "dim": dim, "setter": name, "direction": direction}
                    cls = f"aliasing|{dname}|{name}|{L.sysname(system)}|{flavor}"
                    try:
                        v, _ = sym_vector(dim, system, flavor, "1")
                        w = f(v, ang)
                        target, other = (w, v) if direction.startswith("assign to the derived") else (v, w)
                        before = L.system_of(other)
                        setattr(target, name, new)
                        after = L.system_of(other)
                    except Exception as e:  # noqa: BLE001
                        res.count("derive_then_assign_not_supported")
                        continue
                    if before != after:
                        res.violation(cls, f"{direction} ({name} = newvalue) after w = v.{dname}(...) changed the other vector: {before} -> {after}", case)
                    else:
                        res.nontrivial += 1
    res.sample({"kind": "inplace", "sys": list(system), "operators": [n for n, _, _ in INPLACE], "derive_then_assign": [d for d, _ in derive]})


def run_shard(shard, tier):
    res = Result()
    if shard.get("kind") == "inplace":
        run_inplace(res, shard["dim"], tuple(shard["sys"]), tier)
        return res
    op = BY_KEY[shard["op"]]
    dimA, dimB = shard["dimA"], shard["dimB"]
    only_sa = tuple(shard["sysA"]) if "sysA" in shard else None
    mode = "all" if (tier == "thorough" or dimB is None) else "diag"
    sigs = [sg for sg in S.signatures(op, dimA, dimB, mode) if only_sa is None or sg[0] == only_sa]
    flavors = ["momentum"] if op.momentum_only else ["generic", "momentum"]
    for k, (sa, sb) in enumerate(sigs):
        fl = flavors if (tier == "thorough" or dimB is None) else [flavors[k % len(flavors)]]
        for flavor in fl:
            run_expr(res, op, sa, sb, flavor, tier)
        for zi in range(len(L.field_names(sa))):
            run_expr(res, op, sa, sb, fl[0], tier, zero_index=zi)
        for pat in sign_patterns(dimA, sa, tier):
            run_expr(res, op, sa, sb, fl[-1], tier, assume=pat)
    res.sample({"op": op.key, "dimA": dimA, "dimB": dimB, "signatures": len(sigs), "points": len(regular_vectors(dimA, tier)), "example_point": list(regular_vectors(dimA, tier)[0].comps)})
    return res


def replay(case):
    res = Result()
    if "inplace" in case:
        run_inplace(res, case["dim"], tuple(case["sysA"]), "thorough")
        return res
    op = BY_KEY[case["op"]]
    sa = tuple(case["sysA"])
    sb = tuple(case["sysB"]) if case.get("sysB") else None
    run_expr(res, op, sa, sb, case["flavor"], "thorough", zero_index=case.get("zero_index"), assume=tuple(case["assume"]) if case.get("assume") else None)
    return res
