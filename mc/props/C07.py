"""C07 — Numba-compiled code behaves like the interpreter.

Probe programs are *generated as source* from the catalogue and compiled once per type
signature (coordinate systems and flavors of the arguments); all members of a family are
batched into one function returning a tuple.  Each compiled function is compared with
its own ``py_func`` on the float alphabet: same vector class, same coordinate classes,
values within 1e-12, booleans equal.

Families: P1 properties; P2 unary methods with scalar arguments; P3 binary methods and
operators; P4 constructors; P5 chains of two calls; P6 loops over Awkward arrays of
vectors inside compiled functions.
"""

from __future__ import annotations

import itertools
import math
import time

import numpy as np

from .. import alphabet as A
from .. import build as B
from .. import lattice as L
from .. import sweep as S
from ..result import Result

import awkward as ak  # noqa: E402
import numba  # noqa: E402
import vector  # noqa: E402
import vector.backends._numba_object  # noqa: E402,F401

ID = "C07"
RULE = (
    "a program is a generated function (family x member list) compiled for one type signature (dimension, coordinate system and flavor of each argument); states = "
    "(program, type signature) pairs compiled, transitions = compiled and interpreted executions, traces = member results compared; non-trivial = member results that "
    "are vectors or depend on a non-Cartesian system; a member that fails to compile for one signature while compiling for another coordinate system of the same "
    "dimension is a violation (missing signature); a member that compiles for none is listed as unsupported"
)
ASSUMPTIONS = [
    "compiled vs interpreted values agree to 1e-12 relative (NaN = NaN); vector results must have the same Python class and coordinate classes",
    "operands are float64 object vectors from the well-conditioned alphabet; integer-typed coordinates are not enumerated",
    "transform2D/3D/4D are driven with a numba typed dict as the mapping argument; programs with operands of different dimension are not enumerated (the interpreter raises there)",
]
CAP_S = {"quick": 3000, "thorough": 14000}

PROPS = {2: ["x", "y", "rho", "rho2", "phi"], 3: ["z", "theta", "eta", "costheta", "cottheta", "mag", "mag2"], 4: ["t", "t2", "tau", "tau2", "beta", "gamma", "rapidity"]}
MPROPS = {2: ["px", "py", "pt", "pt2"], 3: ["pz", "p", "p2", "pseudorapidity"],
          4: ["E", "energy", "E2", "energy2", "M", "mass", "M2", "mass2", "Et", "transverse_energy", "Et2", "transverse_energy2", "Mt", "transverse_mass", "Mt2", "transverse_mass2"]}
# members found to compile for no coordinate system at all (not supported by the Numba backend); they are probed
# one by one in a single signature per run so that the evidence keeps listing them
PROBE_UNSUPPORTED_P1 = ["v.e", "v.e2", "v.m", "v.m2", "v.et", "v.et2", "v.mt", "v.mt2"]
PROBE_UNSUPPORTED_P2 = ["v.rotate_euler(a, b, c)"]

UNARY = {
    2: ["v.unit()", "v.neg2D", "v.scale(k)", "v.scale2D(k)", "v.rotateZ(a)", "-v", "+v", "v * k", "k * v", "v / k", "abs(v)", "v ** 2", "v ** 3", "numpy.sqrt(v)", "numpy.cbrt(v)", "numpy.square(v)",
        "numpy.absolute(v)", "v.to_Vector2D()", "v.to_Vector3D()", "v.to_Vector4D()", "v.to_xy()", "v.to_rhophi()", "bool(v)"],
    3: ["v.neg3D", "v.scale3D(k)", "v.rotateX(a)", "v.rotateY(a)", "v.rotate_euler(a, b, c, 'yzx')", "v.rotate_nautical(a, b, c)", "v.rotate_quaternion(0.5, -0.5, 0.5, 0.5)",
        "v.to_xyz()", "v.to_rhophieta()", "v.to_xytheta()"],
    4: ["v.neg4D", "v.scale4D(k)", "v.boostX(beta=a)", "v.boostX(gamma=g)", "v.boostY(beta=a)", "v.boostY(gamma=g)", "v.boostZ(beta=a)", "v.boostZ(gamma=g)", "v.to_beta3()",
        "v.is_timelike()", "v.is_spacelike(0.0)", "v.is_lightlike(1e-5)", "v.to_xyzt()", "v.to_rhophietatau()", "v.to_xythetat()"],
}
BINARY_SAME = ["v.add(w)", "v + w", "v.subtract(w)", "v - w", "v.dot(w)", "v @ w", "v.equal(w)", "v == w", "v.not_equal(w)", "v != w", "v.isclose(w)", "v.isclose(w, 1e-3, 1e-3)",
               "v.deltaphi(w)", "v.is_parallel(w)", "v.is_antiparallel(w, 1e-5)", "v.is_perpendicular(w)", "numpy.add(v, w)", "numpy.subtract(v, w)", "numpy.matmul(v, w)"]
BINARY_3 = ["v.deltaangle(w)", "v.deltaeta(w)", "v.deltaR(w)", "v.deltaR2(w)"]
BINARY_33 = ["v.cross(w)"]
BINARY_X3 = ["v.rotate_axis(w, a)"]
BINARY_44 = ["v.deltaRapidityPhi(w)", "v.deltaRapidityPhi2(w)", "v.boost_p4(w)", "v.boost(w)", "v.boostCM_of_p4(w)", "v.boostCM_of(w)"]
BINARY_43 = ["v.boost_beta3(w)", "v.boost(w)", "v.boostCM_of_beta3(w)", "v.boostCM_of(w)"]
CHAIN_OPS = {
    2: ["to_Vector3D()", "rotateZ(a)", "scale(k)", "unit()", "to_rhophi()", "to_xy()"],
    3: ["to_Vector2D()", "to_Vector4D()", "rotateX(a)", "scale(k)", "unit()", "to_rhophieta()", "to_xyz()", "neg3D"],
    4: ["to_Vector3D()", "to_Vector2D()", "to_beta3()", "boostX(beta=a)", "rotateY(a)", "scale(k)", "unit()", "to_rhophietatau()", "to_xyzt()", "neg3D"],
}
SCAL = {"a": 0.3125, "b": -2.5, "c": 4.0, "k": -0.5, "g": -2.5}


def bounds(tier):
    return {"tier": tier, "families": ["P1 properties", "P2 unary methods / operators", "P3 binary methods / operators", "P4 constructors", "P5 chains of two calls", "P6 Awkward loops", "P7 compile histories (both flavors and sibling systems in one process)"],
            "type_signatures": "P1, P2, P6: 20 systems x 2 flavors; P3: diagonal+cross system pairs x flavor pairs (all pairs in thorough); P4: every mixture of geometric and momentum spellings (222); P5: 4 systems per dimension (all in thorough)",
            "tolerance": "1e-12 relative"}


def shards(tier):
    out = []
    for dim in (2, 3, 4):
        for s in L.SYSTEMS[dim]:
            for fl in ("generic", "momentum"):
                out.append({"fam": "P1", "dim": dim, "sys": list(s), "flavor": fl})
                out.append({"fam": "P2", "dim": dim, "sys": list(s), "flavor": fl})
                out.append({"fam": "P6", "dim": dim, "sys": list(s), "flavor": fl})
    for dim in (2, 3, 4):
        pairs = L.sig_pairs(dim, dim, "all" if tier == "thorough" else "diag")
        for i, (sa, sb) in enumerate(pairs):
            fls = list(itertools.product(("generic", "momentum"), repeat=2)) if tier == "thorough" else [[("generic", "momentum"), ("momentum", "generic"), ("momentum", "momentum"), ("generic", "generic")][i % 4], ("generic", "momentum")]
            for fa, fb in dict.fromkeys(fls):
                out.append({"fam": "P3", "dim": dim, "dimB": dim, "sys": list(sa), "sysB": list(sb), "flavor": fa, "flavorB": fb})
    for dimA, dimB in ((3, 4), (4, 3)):
        pairs = L.sig_pairs(dimA, dimB, "all" if tier == "thorough" else "diag")
        for i, (sa, sb) in enumerate(pairs):
            out.append({"fam": "P3", "dim": dimA, "dimB": dimB, "sys": list(sa), "sysB": list(sb), "flavor": ("generic", "momentum")[i % 2], "flavorB": ("momentum", "generic")[(i // 2) % 2]})
    for dim in (2, 3, 4):
        for s in L.SYSTEMS[dim]:
            out.append({"fam": "P4", "dim": dim, "sys": list(s)})
    for dim in (2, 3, 4):
        for s in L.SYSTEMS[dim]:
            out.append({"fam": "P7", "dim": dim, "sys": list(s)})
    for dim in (2, 3, 4):
        systems = L.SYSTEMS[dim] if tier == "thorough" else [L.SYSTEMS[dim][0], L.SYSTEMS[dim][-1]] + ([L.SYSTEMS[dim][len(L.SYSTEMS[dim]) // 2], L.SYSTEMS[dim][1]] if dim > 2 else [])
        for s in dict.fromkeys(systems):
            for fl in ("generic", "momentum"):
                out.append({"fam": "P5", "dim": dim, "sys": list(s), "flavor": fl})
    return out


# ------------------------------------------------------------------------------------- helpers
def compile_members(members, argnames, extra_globals=None):
    """one function returning a tuple of all member expressions"""
    src = "def probe(" + ", ".join(argnames) + "):\n    return (" + ", ".join(members) + ",)\n"
    ns = {"vector": vector, "numpy": np}
    if extra_globals:
        ns.update(extra_globals)
    exec(src, ns)
    return numba.njit(ns["probe"]), src


def same(a, b):
    """compiled result a vs interpreted result b -> None or message"""
    if isinstance(b, vector.Vector) or isinstance(a, vector.Vector):
        if type(a) is not type(b):
            return f"class {type(a).__name__} (compiled) vs {type(b).__name__} (interpreted)"
        sa, sta = L.system_of(a)
        sb, stb = L.system_of(b)
        if sa != sb:
            return f"coordinate system {sa} (compiled) vs {sb} (interpreted)"
        for n, p, q in zip(L.field_names(sa), sta, stb):
            if not num_close(float(p), float(q)):
                return f"{n} = {float(p)!r} (compiled) vs {float(q)!r} (interpreted)"
        return None
    if isinstance(b, (bool, np.bool_)) or isinstance(a, (bool, np.bool_)):
        return None if bool(a) == bool(b) else f"{bool(a)} (compiled) vs {bool(b)} (interpreted)"
    if not num_close(float(a), float(b)):
        return f"{float(a)!r} (compiled) vs {float(b)!r} (interpreted)"
    return None


def num_close(p, q):
    if p != p or q != q:
        return p != p and q != q
    if math.isinf(p) or math.isinf(q):
        return p == q
    return abs(p - q) <= 1e-12 * max(1.0, abs(p), abs(q))


def _typed(matrix):
    d = numba.typed.Dict()
    for k_, v_ in matrix.items():
        d[k_] = float(v_)
    return d


def vectors_for(dim, system, flavor, tier, n=3):
    vs = [v for v in A.vectors(dim, tier) if not (v.has("near_axis") or v.has("fast") or v.has("negtime") or v.has("spacelike") or v.has("spacelike_tltz"))]
    out = []
    for v in vs:
        st = S.stored(v, system)
        if st is not None:
            out.append(B.make_obj(system, flavor, tuple(float(x) for x in st)))
        if len(out) >= n:
            break
    return out


def run_batch(res: Result, fam, members, argnames, arglists, sig, case, extra_globals=None):
    """compile a batch, run it on every argument list, compare member by member; on a compile failure fall back to one function per member"""
    res.states += 1
    t0 = time.time()
    # members that the *interpreter* rejects on these operands are outside the comparison (e.g. a 4D axis for
    # rotate_axis, t = 0 for to_beta3): drop them individually instead of losing the whole batch
    kept = []
    for m in members:
        res.add_to("members_enumerated", f"{fam}|{m}|{sig.split('|')[0]}")
        src1 = "def probe1(" + ", ".join(argnames) + "):\n    return " + m + "\n"
        ns1 = {"vector": vector, "numpy": np}
        exec(src1, ns1)
        try:
            for args in arglists:
                ns1["probe1"](*args)
            kept.append(m)
        except Exception:  # noqa: BLE001
            res.count("members_rejected_by_the_interpreter")
    members = kept
    if not members:
        return
    f, src = compile_members(members, argnames, extra_globals)
    failing = {}
    try:
        first = f(*arglists[0])
        res.count("batch_compilations")
        groups = [(members, f, first)]
    except Exception:  # noqa: BLE001
        # the batch does not compile (or a member raises at run time): one function per member
        groups = []
        for m in members:
            res.count("member_compilations")
            fm, _ = compile_members([m], argnames, extra_globals)
            try:
                r0 = fm(*arglists[0])
                groups.append(([m], fm, r0))
            except Exception as em:  # noqa: BLE001
                # does the interpreter accept it?
                try:
                    fm.py_func(*arglists[0])
                    failing[m] = f"{type(em).__name__}: {(str(em).strip().splitlines() or [""])[0][:160]}"
                except Exception:  # noqa: BLE001
                    res.count("member_fails_in_interpreter_too")
    for m, why in failing.items():
        res.add_to("compile_failures", f"{fam}|{m}|{sig}||{why}")
    for ms, fn, first in groups:
        for ai, args in enumerate(arglists):
            res.transitions += 2
            try:
                want = fn.py_func(*args)
            except Exception:  # noqa: BLE001
                res.count("interpreter_raises_on_operands")
                continue
            try:
                got = first if (ai == 0) else fn(*args)
            except Exception as e:  # noqa: BLE001
                res.violation(f"raises|{fam}|{ms[0] if len(ms) == 1 else 'batch'}|{sig}", f"{type(e).__name__}: {str(e).strip()[:200]} while running {ms[:3]}...", dict(case, members=ms))
                break
            for m, g, w in zip(ms, got, want):
                res.traces += 1
                res.evaluations += 1
                msg = same(g, w)
                res.add_to("members_ok", f"{fam}|{m}|{sig.split('|')[0]}")  # compiled and compared (whatever the verdict)
                if msg is not None:
                    kind = "class" if msg.startswith("class") else ("system" if msg.startswith("coordinate") else "value")
                    res.violation(f"{kind}|{fam}|{m}|{sig}", f"{m}: {msg}", dict(case, member=m, args_index=ai))
                else:
                    if isinstance(w, vector.Vector) or "xy" not in sig.split("|")[1:2]:
                        res.nontrivial += 1
    res.counters["compile_wall_s_max"] = max(res.counters.get("compile_wall_s_max", 0), time.time() - t0)


def sigstr(dim, system, flavor, dimB=None, sysB=None, flavorB=None):
    s = f"{dim}D|{L.sysname(system)}|{flavor}"
    if sysB is not None:
        s += f"|{dimB}D|{L.sysname(sysB)}|{flavorB}"
    return s


def run_shard(shard, tier):
    res = Result()
    fam, dim = shard["fam"], shard["dim"]
    system = tuple(shard["sys"])
    flavor = shard.get("flavor", "generic")
    case = dict(shard)
    if fam == "P1":
        members = [f"v.{p}" for d in (2, 3, 4) if d <= dim for p in PROPS[d]]
        if flavor == "momentum":
            members += [f"v.{p}" for d in (2, 3, 4) if d <= dim for p in MPROPS[d]]
        args = [(v,) for v in vectors_for(dim, system, flavor, tier)]
        run_batch(res, fam, members, ["v"], args, sigstr(dim, system, flavor), case)
        if dim == 4 and flavor == "momentum" and system == L.SYSTEMS[4][0]:
            for m in PROBE_UNSUPPORTED_P1:
                run_batch(res, fam, [m], ["v"], args[:1], sigstr(dim, system, flavor), case)
            a2 = [(args[0][0], SCAL["a"], SCAL["b"], SCAL["c"], SCAL["k"], SCAL["g"])]
            for m in PROBE_UNSUPPORTED_P2:
                run_batch(res, "P2", [m], ["v", "a", "b", "c", "k", "g"], a2, sigstr(dim, system, flavor), case)
    elif fam == "P2":
        members = [m for d in (2, 3, 4) if d <= dim for m in UNARY[d]]
        if dim == 4:
            members = [m for m in members if m != "v.to_Vector4D()"] + ["v.to_Vector4D()"]
        args = [(v, SCAL["a"], SCAL["b"], SCAL["c"], SCAL["k"], SCAL["g"]) for v in vectors_for(dim, system, flavor, tier)]
        run_batch(res, fam, members, ["v", "a", "b", "c", "k", "g"], args, sigstr(dim, system, flavor), case)
        # general linear transforms: the mapping argument is a numba typed dict (non-symmetric matrices)
        tmembers = ["v.transform2D(m2)"] + (["v.transform3D(m3)"] if dim >= 3 else []) + (["v.transform4D(m4)"] if dim == 4 else [])
        targs = [(v, _typed(A.MATRIX2), _typed(A.MATRIX3), _typed(A.MATRIX4)) for v in vectors_for(dim, system, flavor, tier, n=2)]
        run_batch(res, fam, tmembers, ["v", "m2", "m3", "m4"], targs, sigstr(dim, system, flavor) + "|transforms", dict(case, transforms=True))
    elif fam == "P3":
        dimB, sysB, flavorB = shard["dimB"], tuple(shard["sysB"]), shard["flavorB"]
        if dim == dimB:
            members = list(BINARY_SAME)
            if dim >= 3:
                members += BINARY_3 + BINARY_X3
            if dim == 3:
                members += BINARY_33
            if dim == 4:
                members += BINARY_44
        elif (dim, dimB) == (4, 3):
            members = BINARY_43 + BINARY_3 + BINARY_X3 + ["v.deltaphi(w)"]
        else:
            members = BINARY_3 + ["v.deltaphi(w)"]
        va = vectors_for(dim, system, flavor, tier)
        if dimB == 3 and dim == 4:
            wb = [B.make_obj(sysB, flavorB, tuple(float(x) for x in S.stored(p, sysB))) for p in S._beta3_partners(tier)[:3]]
        elif dimB == 4:
            wb = [B.make_obj(sysB, flavorB, tuple(float(x) for x in S.stored(p, sysB))) for p in S._booster_p4("thorough")[:3] if S.stored(p, sysB) is not None]
        else:
            wb = [B.make_obj(sysB, flavorB, tuple(float(x) for x in S.stored(p, sysB))) for p in A.partners(dimB, tier)[:3]]
        args = [(v, w, SCAL["a"]) for v, w in zip(va, wb)]
        if args:
            run_batch(res, fam, members, ["v", "w", "a"], args, sigstr(dim, system, flavor, dimB, sysB, flavorB), case)
        # an identical pair too (the true branch of the comparisons); only the comparison members: v - v is the zero vector,
        # a singular input outside the property's well-conditioned domain (Numba raises ZeroDivisionError where NumPy gives NaN)
        if dim == dimB and system == sysB and flavor == flavorB and va:
            cmpm = ["v.equal(w)", "v == w", "v.not_equal(w)", "v != w", "v.isclose(w)", "v.is_parallel(w)"]
            run_batch(res, fam, cmpm, ["v", "w", "a"], [(va[0], va[0], SCAL["a"])], sigstr(dim, system, flavor, dimB, sysB, flavorB), case)
            # a pair that differs in its first stored coordinate only (3.5 vs 3.675): whether it is close depends on which of the two
            # tolerances is the relative one, in both operand orders
            st = list(L.system_of(va[0])[1])
            st[0] = 3.5
            v1 = B.make_obj(system, flavor, tuple(st))
            st[0] = 3.675
            w1 = B.make_obj(system, flavor, tuple(st))
            tolm = ["v.isclose(w, 0.1, 1e-9)", "v.isclose(w, 1e-9, 0.1)", "v.isclose(w, rtol=0.1, atol=1e-9)", "v.isclose(w, atol=0.1, rtol=1e-9)", "v.isclose(w)", "v.equal(w)", "v != w"]
            run_batch(res, fam, tolm, ["v", "w", "a"], [(v1, w1, SCAL["a"]), (w1, v1, SCAL["a"])], sigstr(dim, system, flavor, dimB, sysB, flavorB) + "|tolerance-pair", dict(case, pair="tolerance"))
    elif fam == "P4":
        names = L.field_names(system)
        for fl in ("generic", "momentum"):
            spell = L.field_names(system, fl)
            spellings = [spell]
            if fl == "momentum" and dim == 4:
                alt = {"E": ["e", "energy"], "mass": ["M", "m"]}
                last = spell[-1]
                spellings += [spell[:-1] + (x,) for x in alt.get(last, [])]
            if fl == "momentum":
                # every mixture of geometric and momentum spellings, coordinate by coordinate (one momentum name makes a momentum vector)
                ALT = {"x": ["px"], "y": ["py"], "rho": ["pt"], "z": ["pz"], "t": ["E", "e", "energy"], "tau": ["mass", "M", "m"]}
                for mix in itertools.product(*[[n] + ALT.get(n, []) for n in names]):
                    if mix != tuple(names) and mix not in spellings:
                        spellings.append(mix)
            for sp in spellings:
                members = ["vector.obj(" + ", ".join(f"{n}=c{i}" for i, n in enumerate(sp)) + ")"]
                cls = {2: "Object2D", 3: "Object3D", 4: "Object4D"}[dim]
                args = [tuple(0.75 + 0.5 * i for i in range(dim)), tuple(-1.25 + 0.375 * i for i in range(dim))]
                run_batch(res, fam, members, [f"c{i}" for i in range(dim)], args, sigstr(dim, system, fl) + "|" + "+".join(sp), dict(case, spelling=list(sp)))
    elif fam == "P5":
        ops = CHAIN_OPS[dim]
        members = []
        for o1 in ops:
            # the dimension after the first call decides which second calls exist
            d1 = {"to_Vector2D()": 2, "to_Vector3D()": 3, "to_Vector4D()": 4, "to_beta3()": 3}.get(o1, dim)
            for o2 in CHAIN_OPS[d1]:
                if o1 == "to_Vector4D()" and o2 == "to_beta3()":
                    continue  # t = 0 after the embedding: the interpreter raises ZeroDivisionError
                members.append(f"v.{o1}.{o2}")
        members = [m + ("" if m.endswith("unit()") and False else "") for m in members]
        args = [(v, SCAL["a"], SCAL["k"]) for v in vectors_for(dim, system, flavor, tier, n=2)]
        # split into batches of 16 members to bound compile time per function
        for i in range(0, len(members), 16):
            run_batch(res, fam, members[i : i + 16], ["v", "a", "k"], args, sigstr(dim, system, flavor), dict(case, batch=i // 16))
    elif fam == "P6":
        run_awkward_loops(res, dim, system, flavor, tier, case)
    elif fam == "P7":
        # compile history inside one process: the same members for both flavors of this system and for the sibling systems that differ
        # from it in exactly one coordinate group, one after the other, and for the first one again (type-keyed caches in the
        # Numba backend must key on everything that distinguishes two vector types)
        members = ["v", "-v", "v.scale(k)", "v.rotateZ(a)", "v.unit()"] + (["v.rotate_euler(a, b, c, 'yzx')", "v.rotateX(a)", "v.to_Vector2D()"] if dim >= 3 else []) + (["v.boostX(beta=a)", "v.to_Vector3D()", "v.to_beta3()"] if dim == 4 else [])
        siblings = [s_ for s_ in L.SYSTEMS[dim] if sum(1 for p_, q_ in zip(s_, system) if p_ != q_) == 1]
        seq = [(system, "generic"), (system, "momentum")] + [(s_, ("momentum", "generic")[i % 2]) for i, s_ in enumerate(siblings)] + [(system, "generic"), (system, "momentum")]
        for step, (sy, fl) in enumerate(seq):
            vv = vectors_for(dim, sy, fl, tier, n=1)
            if not vv:
                continue
            args = [(vv[0], SCAL["a"], SCAL["b"], SCAL["c"], SCAL["k"])]
            run_batch(res, fam, members, ["v", "a", "b", "c", "k"], args, sigstr(dim, sy, fl) + f"|step{step}-after-{L.sysname(system)}", dict(case, step=step, step_sys=list(sy), step_flavor=fl))
    if system == L.SYSTEMS[dim][-1] and flavor == "momentum" or fam == "P4" and dim == 4 and system == L.SYSTEMS[4][0]:
        res.sample({"family": fam, "signature": sigstr(dim, system, flavor), "members": {"P1": "all properties", "P2": UNARY[dim][:6], "P3": BINARY_SAME[:6], "P4": "vector.obj(<names>=...)", "P5": "v.<op1>.<op2> chains", "P6": "for ev in arr: for p in ev: acc += p.<property or method>"}.get(fam)})
    return res


def run_awkward_loops(res, dim, system, flavor, tier, case):
    """loops over an Awkward array of vectors inside a compiled function"""
    props = [p for d in (2, 3, 4) if d <= dim for p in PROPS[d]]
    vs = vectors_for(dim, system, flavor, "thorough", n=5)
    rows = [tuple(float(x) for x in L.system_of(v)[1]) for v in vs]
    arr = B.make_ak(system, flavor, rows, "jagged")
    lines = ["def probe(arr):"]
    for i, p in enumerate(props):
        lines.append(f"    s{i} = 0.0")
    lines += ["    n = 0", "    for ev in arr:", "        for p in ev:", "            n += 1"]
    for i, p in enumerate(props):
        lines.append(f"            s{i} += p.{p}")
    extra = ["p.add(p).rho", "p.scale(2.0).rho", "(p + p).rho", "p.dot(p)", "p.rotateZ(0.25).phi", "p.deltaphi(p)"]
    if dim >= 3:
        extra += ["p.to_Vector2D().rho", "p.rotateX(0.25).z", "p.deltaR(p)"]
    if dim == 4:
        extra += ["p.to_beta3().mag", "p.boostX(beta=0.25).t", "p.to_Vector3D().mag", "p.boost_p4(p).t"]
    for j, e in enumerate(extra):
        lines.insert(1, f"    e{j} = 0.0")
        lines.append(f"            e{j} += {e}")
    lines.append("    return (n, " + ", ".join([f"s{i}" for i in range(len(props))] + [f"e{j}" for j in range(len(extra))]) + ")")
    src = "\n".join(lines) + "\n"
    ns = {"vector": vector, "numpy": np}
    exec(src, ns)
    f = numba.njit(ns["probe"])
    sig = sigstr(dim, system, flavor)
    res.states += 1
    res.transitions += 2
    try:
        got = f(arr)
    except Exception as e:  # noqa: BLE001
        res.add_to("compile_failures", f"P6|awkward loop|{sig}||{type(e).__name__}: {(str(e).strip().splitlines() or [""])[0][:160]}")
        return
    # interpreted reference: the same loop body run by the interpreter on the same array
    want = ns["probe"](arr)
    names = ["count"] + [f"sum p.{p}" for p in props] + [f"sum {e}" for e in extra]
    for nme, g, w in zip(names, got, want):
        res.traces += 1
        res.evaluations += 1
        if not num_close(float(g), float(w)):
            res.violation(f"value|P6|{nme}|{sig}", f"{nme}: {float(g)!r} (compiled) vs {float(w)!r} (interpreted)", dict(case, member=nme))
        else:
            res.nontrivial += 1
            res.add_to("members_ok", f"P6|{nme}|{dim}D")


def finalize(total, tier, complete):
    fails = total.sets.pop("compile_failures", set())
    ok = total.sets.pop("members_ok", set())
    ok_keys = {tuple(x.split("|")[:3]) for x in ok}  # (family, member, 'nD')
    unsupported = set()
    for f in sorted(fails):
        head, why = f.split("||", 1)
        fam, member, dimtag = head.split("|")[:3]
        if (fam, member, dimtag) in ok_keys:
            total.violation(f"missing_signature|{fam}|{member}|{'|'.join(head.split('|')[2:])}", f"{member} does not compile for {head.split('|', 2)[2]} ({why}) although it compiles for another coordinate system / flavor of the same dimension", {"member": member, "signature": head})
        else:
            unsupported.add(f"{fam}:{member}:{dimtag}")
    total.counters["unsupported_members"] = len(unsupported)
    total.counters["members_compiled_ok"] = len(ok_keys)
    for u in unsupported:
        total.add_to("unsupported_in_numba", u)
    # vacuity guard: every enumerated (family, member, dimension) must have been compared for at least one signature,
    # or be listed as unsupported / as a missing signature
    enumerated = {tuple(x.split("|")[:3]) for x in total.sets.pop("members_enumerated", set())}
    never = sorted(k for k in enumerated if k not in ok_keys and f"{k[0]}:{k[1]}:{k[2]}" not in unsupported)
    total.counters["members_never_compared"] = len(never)
    if never and complete:
        raise RuntimeError(f"vacuous: members enumerated but never compared with the interpreter: {never[:20]}")


def replay(case):
    res = Result()
    shard = {k: v for k, v in case.items() if k in ("fam", "dim", "dimB", "sys", "sysB", "flavor", "flavorB")}
    out = run_shard(shard, "quick")
    finalize(out, "quick", False)
    return out
