"""C05 — result backend, flavor, dimension and coordinate system follow the stated rules.

Exhaustive over the finite lattice: catalogued method x coordinate-system signature x
flavor of each operand x backend pairing (object, NumPy, Awkward array, Awkward record)
x dimension pairing (including the pairings that must raise), with two fixed generic
values per operand; operators versus methods on every backend.
"""

from __future__ import annotations

import itertools

import numpy as np

from .. import alphabet as A
from .. import build as B
from .. import lattice as L
from .. import sweep as S
from ..catalogue import BY_KEY, OPS, missing_from_code
from ..result import Result

import awkward as ak  # noqa: E402
import vector  # noqa: E402

ID = "C05"
RULE = (
    "cases = method x dimension pairing x coordinate-system signature x flavor of each operand x backend of each operand (x operator form); every case is a "
    "call on the real implementation whose result type (backend class, flavor, dimension, coordinate system) or exception is compared with the type model; "
    "non-trivial = a case other than generic-flavor object x object in Cartesian storage; distinct = distinct lattice points"
)
ASSUMPTIONS = [
    "M_type: backend of the highest-priority counted vector operand (object < NumPy < Awkward; rotate_axis' axis does not count), momentum iff a counted operand is momentum, dimension per catalogue; the coordinate system is not tabulated by hand: it must be a function of (method, operand systems) only, checked differentially over all backends / flavors",
    "the container type of scalar-valued results (float / ndarray / ak.Array) is recorded, not asserted: the statement fixes the type of vector-valued results; operator forms of scalar-valued operations are compared by value",
    "values are two fixed generic time-like vectors per operand; value agreement across backends is C03's job",
]
CAP_S = {"quick": 1500, "thorough": 7200}
BK = ("OBJ", "NP", "AKA", "AKR")
PRIO = {"OBJ": 0, "NP": 1, "AKA": 2, "AKR": 2}
SAME_DIM = {"add", "subtract", "dot", "equal", "not_equal", "isclose", "is_parallel", "is_antiparallel", "is_perpendicular"}

ROWS = {
    2: [(1.5, 0.75), (-0.625, 2.25)],
    3: [(1.5, 0.75, 0.875), (-0.625, 2.25, -1.375)],
    4: [(1.5, 0.75, 0.875, 2.5), (-0.625, 2.25, -1.375, 3.5)],
}
ROWS_B = {
    2: [(-0.875, 1.625), (2.125, -0.6875)],
    3: [(-0.21875, 0.40625, -0.140625), (0.53125, -0.171875, 0.296875)],  # also valid velocities
    4: [(-0.875, 1.625, -0.5625, 2.5), (2.125, -0.6875, 1.1875, 2.75)],
}
SCAL = {"factor": 2.0, "angle": 0.3125, "phi": 0.3125, "theta": -2.5, "psi": 4.0, "order": "zxz", "yaw": 0.3125, "pitch": -2.5, "roll": 4.0,
        "u": 0.5, "i": 0.5, "j": 0.5, "k": 0.5, "beta": 0.5, "gamma": 1.25, "tolerance": 1e-5, "rtol": 1e-5, "atol": 1e-8}


def bounds(tier):
    return {"tier": tier, "methods": len(OPS), "backends": list(BK), "flavors": 2,
            "signatures": "all on object x object; diagonal+cross on the other pairings" if tier == "quick" else "all signatures on all pairings",
            "dimension_pairings": "all of 2D/3D/4D for every binary method (allowed ones must work, the others must raise TypeError)"}


def shards(tier):
    out = []
    for op in OPS:
        for dimA in op.dims:
            if op.other is None:
                out.append({"op": op.key, "dimA": dimA, "dimB": None})
            else:
                for dimB in (2, 3, 4):
                    if op.variant in ("p4", "beta3") and dimB != 2 and dimB not in op.other:
                        continue  # boost()/boostCM_of() accept 3D and 4D: the other variant's row covers it
                    out.append({"op": op.key, "dimA": dimA, "dimB": dimB})
    for dim in (2, 3, 4):
        out.append({"op": "__operators__", "dimA": dim, "dimB": dim})
    return out


_cache = {}


def operand(backend, dim, system, flavor, which):
    key = (backend, dim, system, flavor, which)
    v = _cache.get(key)
    if v is None:
        rows = []
        for comps in (ROWS if which == "a" else ROWS_B)[dim]:
            st = S.stored(A.Vec("r", comps, set()), system)
            rows.append(tuple(float(x) for x in st))
        if backend == "OBJ":
            v = B.make_obj(system, flavor, rows[0])
        elif backend == "NP":
            v = B.make_np(system, flavor, rows)
        elif backend == "AKA":
            v = B.make_ak(system, flavor, rows, "flat")
        else:
            v = B.make_akr(system, flavor, rows[0])
        _cache[key] = v
    return v


def allowed(op, dimA, dimB):
    if op.other is None:
        return True
    if op.other == "same":
        return dimA == dimB
    return dimB in op.other


def scalars_for(op):
    s = dict(SCAL)
    if op.name.startswith("transform"):
        n = int(op.name[-2])
        s["matrix"] = {2: A.MATRIX2, 3: A.MATRIX3, 4: A.MATRIX4}[n]
    if op.variant == "beta":
        s.pop("gamma")
    if op.variant == "gamma":
        s.pop("beta")
    return s


def describe(r):
    """-> ('vec', backend-kind, flavor, dim, system, pyclass) | ('scalar', backend-kind, pyclass)"""
    if isinstance(r, vector.Vector) or (isinstance(r, (ak.Array, ak.Record)) and ak.parameters(r).get("__record__", "").endswith("D")):
        if isinstance(r, vector.backends.object.VectorObject):
            kind = "OBJ"
        elif isinstance(r, np.ndarray):
            kind = "NP"
        elif isinstance(r, ak.Record):
            kind = "AKR"
        else:
            kind = "AKA"
        if kind in ("AKA", "AKR"):
            rn = ak.parameters(r).get("__record__") if isinstance(r, ak.Record) else _recname(r)
            flavor = "momentum" if rn and rn.startswith("Momentum") else "generic"
            dim = int(rn[-2]) if rn else None
            system = B.system_of_fields(ak.fields(r))
        else:
            flavor = "momentum" if isinstance(r, vector.Momentum) else "generic"
            dim = 2 if isinstance(r, vector.Vector2D) else 3 if isinstance(r, vector.Vector3D) else 4
            system = L.system_of(r)[0] if kind == "OBJ" else B.system_of_fields(r.dtype.names)
        return ("vec", kind, flavor, dim, system, type(r).__name__)
    if isinstance(r, ak.Array):
        return ("scalar", "AKA", type(r).__name__)
    if isinstance(r, np.ndarray):
        return ("scalar", "NP", type(r).__name__)
    return ("scalar", "single", type(r).__name__)


def _recname(arr):
    t = arr.layout
    while not t.is_record:
        t = t.content
    return t.parameters.get("__record__")


def expected_kind(op, ba, bb):
    counted = [ba] + ([bb] if bb is not None and op.counted_other else [])
    top = max(counted, key=lambda b: PRIO[b])
    if PRIO[top] == 2:
        anyarray = any(b in ("NP", "AKA") for b in ([ba, bb] if bb is not None else [ba]))
        return "AKA" if anyarray else "AKR"
    return top


def run_op(res: Result, op, dimA, dimB, tier, only=None):
    full = tier == "thorough"
    sysA_all = L.SYSTEMS[dimA]
    sig_all = [(sa, None) for sa in sysA_all] if dimB is None else L.sig_pairs(dimA, dimB, "all")
    sig_diag = sig_all if dimB is None else L.sig_pairs(dimA, dimB, "diag")
    ok_dims = allowed(op, dimA, dimB)
    s = scalars_for(op)
    table = {}  # (sa, sb) -> (system, where first seen)
    pairings = [(a, None) for a in BK] if dimB is None else list(itertools.product(BK, BK))
    flavors = ["momentum"] if op.momentum_only else ["generic", "momentum"]
    for ba, bb in pairings:
        sigs = sig_all if (full or (ba == "OBJ" and bb in (None, "OBJ"))) else sig_diag
        if not ok_dims:
            sigs = sig_diag[:2]  # a raising pairing: the signature is irrelevant, keep two
        for sa, sb in sigs:
            for fa in flavors:
                for fb in (("generic", "momentum") if dimB is not None else (None,)):
                    if only is not None and only != (ba, bb, sa, sb, fa, fb):
                        continue
                    res.states += 1
                    res.transitions += 1
                    res.evaluations += 1
                    va = operand(ba, dimA, sa, fa, "a")
                    others = [operand(bb, dimB, sb, fb, "b")] if dimB is not None else []
                    case = {"op": op.key, "dimA": dimA, "dimB": dimB, "ba": ba, "bb": bb, "sysA": list(sa), "sysB": list(sb) if sb else None, "fa": fa, "fb": fb}
                    cls_tail = f"{op.key}|{dimA}D" + (f"x{dimB}D" if dimB else "") + f"|{ba}" + (f"x{bb}" if bb else "")
                    try:
                        r = op.call(va, others, s)
                    except TypeError as e:
                        res.traces += 1
                        if not ok_dims:
                            res.nontrivial += 1
                        elif "has no signature" in str(e):
                            res.violation(f"no_signature|{cls_tail}|{L.sysname(sa)}|{sb and L.sysname(sb)}", f"{op.key}: {e}", case)
                        else:
                            res.violation(f"raises|{cls_tail}|{_sigclass(sa, sb)}|TypeError", f"{op.key} raised TypeError: {str(e)[:200]}", case)
                        continue
                    except Exception as e:  # noqa: BLE001
                        res.traces += 1
                        if not ok_dims:
                            res.violation(f"wrong_exception|{cls_tail}|{type(e).__name__}", f"{op.key} with a {dimB}D operand raised {type(e).__name__}: {str(e)[:150]} (TypeError expected)", case)
                        else:
                            res.violation(f"raises|{cls_tail}|{_sigclass(sa, sb)}|{type(e).__name__}", f"{op.key} raised {type(e).__name__}: {str(e)[:200]}", case)
                        continue
                    res.traces += 1
                    if not ok_dims:
                        res.violation(f"dimension_not_rejected|{cls_tail}", f"{op.key} accepted a {dimA}D self with a {dimB}D operand and returned {type(r).__name__}; TypeError expected", case)
                        continue
                    d = describe(r)
                    want_kind = expected_kind(op, ba, bb)
                    if op.ret == "vec":
                        want_flavor = "momentum" if (fa == "momentum" or (op.counted_other and fb == "momentum")) else "generic"
                        want_dim = dimA if op.retdim == "self" else op.retdim
                        if d[0] != "vec":
                            res.violation(f"not_a_vector|{cls_tail}", f"{op.key} returned {type(r).__name__}, a vector was expected", case)
                            continue
                        _, kind, flavor, dim, system, pyc = d
                        if kind != want_kind:
                            res.violation(f"backend|{cls_tail}", f"{op.key} returned a {kind} vector ({pyc}); the rule gives {want_kind}", case)
                            continue
                        if flavor != want_flavor:
                            res.violation(f"flavor|{cls_tail}|{fa}{'+' + fb if fb else ''}", f"{op.key} returned flavor {flavor} ({pyc}); operands are {fa}{' and ' + fb if fb else ''}, the rule gives {want_flavor}", case)
                            continue
                        if dim != want_dim or len(system) + 1 != want_dim:
                            res.violation(f"dimension|{cls_tail}", f"{op.key} returned a {dim}D vector stored as {system}; the rule gives {want_dim}D", case)
                            continue
                        key = (sa, sb)
                        seen = table.get(key)
                        if seen is None:
                            table[key] = (system, f"{ba}x{bb} {fa}/{fb}")
                        elif seen[0] != system:
                            res.violation(f"system_depends_on_backend_or_flavor|{cls_tail}|{L.sysname(sa)}|{sb and L.sysname(sb)}", f"{op.key} returned system {system} here but {seen[0]} for {seen[1]}", case)
                            continue
                        if kind in ("AKA", "AKR"):
                            res.add_to("awkward_result_classes", f"{kind}:{pyc}")
                    else:
                        if d[0] != "scalar":
                            res.violation(f"not_a_scalar|{cls_tail}", f"{op.key} returned {type(r).__name__}, a {op.ret} was expected", case)
                            continue
                        # the statement fixes the type of vector-valued results only; the container of
                        # scalar results (float / ndarray / ak.Array) is recorded, not asserted
                        res.add_to("scalar_result_containers", f"{ba}x{bb}:{d[2]}")
                    if not (ba == "OBJ" and bb in (None, "OBJ") and fa == "generic" and sa == L.CART[dimA]):
                        res.nontrivial += 1
    # after like(): the same-dimension operations accept operands of different dimension
    if op.name in SAME_DIM and not ok_dims and only is None:
        for ba, bb in (("OBJ", "OBJ"), ("NP", "AKA"), ("AKA", "OBJ")):
            va, vb = operand(ba, dimA, L.CART[dimA], "generic", "a"), operand(bb, dimB, L.SYSTEMS[dimB][-1], "momentum", "b")
            res.states += 1
            res.transitions += 2
            res.traces += 1
            try:
                op.call(va.like(vb), [vb], s)
                op.call(va, [vb.like(va)], s)
                res.nontrivial += 1
            except Exception as e:  # noqa: BLE001
                res.violation(f"like_does_not_help|{op.key}|{dimA}Dx{dimB}D|{ba}x{bb}", f"a.like(b).{op.name}(b) raised {type(e).__name__}: {str(e)[:150]}", {"op": op.key, "dimA": dimA, "dimB": dimB, "ba": ba, "bb": bb, "like": True})


def _sigclass(sa, sb):
    t = []
    for s_ in (sa, sb):
        if s_ is not None and len(s_) > 2:
            t.append(s_[2])
    return "/".join(t) or "any"


# --------------------------------------------------------------------------------- operators
def _factors(a):
    """one factor per element, mixed signs, as the array type of the operand's backend"""
    if isinstance(a, ak.Array):
        return ak.Array([2.0, -0.5, 1.5, -3.0, 0.25, 4.0][: len(a)])
    return np.array([2.0, -0.5, 1.5, -3.0, 0.25, 4.0][: a.shape[0]])


def run_operators(res: Result, dim):
    n2 = {2: "rho2", 3: "mag2", 4: "tau2"}[dim]
    nn = {2: "rho", 3: "mag", 4: "tau"}[dim]
    forms = {
        "+": (lambda a, b: a + b, lambda a, b: a.add(b)), "-": (lambda a, b: a - b, lambda a, b: a.subtract(b)),
        "*": (lambda a, b: a * 2.5, lambda a, b: a.scale(2.5)), "r*": (lambda a, b: 2.5 * a, lambda a, b: a.scale(2.5)),
        "/": (lambda a, b: a / 4.0, lambda a, b: a.scale(0.25)), "@": (lambda a, b: a @ b, lambda a, b: a.dot(b)),
        "==": (lambda a, b: a == b, lambda a, b: a.equal(b)), "!=": (lambda a, b: a != b, lambda a, b: a.not_equal(b)),
        "neg": (lambda a, b: -a, lambda a, b: a.scale(-1)), "pos": (lambda a, b: +a, lambda a, b: a),
        "abs": (lambda a, b: abs(a), lambda a, b: getattr(a, nn)), "**2": (lambda a, b: a**2, lambda a, b: getattr(a, n2)),
        "**3": (lambda a, b: a**3, lambda a, b: getattr(a, nn) ** 3),
        "**0.5": (lambda a, b: a**0.5, lambda a, b: getattr(a, nn) ** 0.5), "**-1": (lambda a, b: a**-1, lambda a, b: getattr(a, nn) ** -1),
        "numpy.power(3)": (lambda a, b: np.power(a, 3), lambda a, b: getattr(a, nn) ** 3),
        # factors that are not Python scalars, on either side: NumPy scalars, 0-d arrays, and per-element factor arrays
        "*np.float64": (lambda a, b: a * np.float64(2.5), lambda a, b: a.scale(2.5)), "np.int32*": (lambda a, b: np.int32(3) * a, lambda a, b: a.scale(3)),
        "*0d": (lambda a, b: a * np.array(2.5), lambda a, b: a.scale(2.5)), "0d*": (lambda a, b: np.array(2.5) * a, lambda a, b: a.scale(2.5)),
        "*arr": (lambda a, b: a * _factors(a), lambda a, b: a.scale(_factors(a))), "arr*": (lambda a, b: _factors(a) * a, lambda a, b: a.scale(_factors(a))),
        "/arr": (lambda a, b: a / _factors(a), lambda a, b: a.scale(1.0 / _factors(a))),
        "numpy.multiply(arr,v)": (lambda a, b: np.multiply(_factors(a), a), lambda a, b: a.scale(_factors(a))), "numpy.multiply(v,arr)": (lambda a, b: np.multiply(a, _factors(a)), lambda a, b: a.scale(_factors(a))),
        "numpy.divide(v,arr)": (lambda a, b: np.divide(a, _factors(a)), lambda a, b: a.scale(1.0 / _factors(a))),
    }
    for ba, bb in itertools.product(BK, BK):
        for sa in (L.CART[dim], L.SYSTEMS[dim][-1]):
            sb = L.SYSTEMS[dim][-1] if sa == L.CART[dim] else L.CART[dim]
            for fa, fb in itertools.product(("generic", "momentum"), repeat=2):
                va, vb = operand(ba, dim, sa, fa, "a"), operand(bb, dim, sb, fb, "b")
                for name, (f, g) in forms.items():
                    unary = name not in ("+", "-", "@", "==", "!=")
                    if "arr" in name and ba not in ("NP", "AKA"):
                        continue  # per-element factor arrays belong to the array backends
                    if unary and (bb != ba or fb != fa):
                        continue
                    res.states += 1
                    res.transitions += 2
                    res.evaluations += 1
                    case = {"op": "__operators__", "operator": name, "dimA": dim, "ba": ba, "bb": bb, "sysA": list(sa), "sysB": list(sb), "fa": fa, "fb": fb}
                    cls = f"operator|{name}|{dim}D|{ba}" + ("" if unary else f"x{bb}")
                    try:
                        m = g(va, vb)
                    except Exception as e:  # noqa: BLE001
                        res.violation(cls + "|method_raises", f"method form raised {type(e).__name__}: {str(e)[:120]}", case)
                        continue
                    try:
                        o = f(va, vb)
                    except Exception as e:  # noqa: BLE001
                        res.traces += 1
                        res.violation(cls + f"|raises|{type(e).__name__}", f"operator {name} raised {type(e).__name__}: {str(e).strip()[:120]} while the method form returns {type(m).__name__}", case)
                        continue
                    res.traces += 1
                    do, dm = describe(o), describe(m)
                    if do[0] != dm[0] or (do[0] == "vec" and do != dm):
                        res.violation(cls + "|type", f"operator {name} returned {do}, the method form {dm}", case)
                        continue
                    if do[0] == "vec":
                        if B.result_rows(o)[3] != B.result_rows(m)[3]:
                            res.violation(cls + "|value", f"operator {name} returned {B.result_rows(o)[3]}, the method form {B.result_rows(m)[3]}", case)
                            continue
                    else:
                        if B.scalar_values(o)[0] != B.scalar_values(m)[0]:
                            res.violation(cls + "|value", f"operator {name} returned {B.scalar_values(o)[0]}, the method form {B.scalar_values(m)[0]}", case)
                            continue
                    res.nontrivial += 1


def run_operator_dimension(res: Result, dim):
    """binary operators between operands of different dimension, on all 16 ordered backend pairings: an operator stands for its
    method, so where the method raises TypeError (no like() conversion) the operator must raise too, never return a value"""
    forms = {"+": (lambda a, b: a + b, lambda a, b: a.add(b)), "-": (lambda a, b: a - b, lambda a, b: a.subtract(b)), "@": (lambda a, b: a @ b, lambda a, b: a.dot(b)),
             "==": (lambda a, b: a == b, lambda a, b: a.equal(b)), "!=": (lambda a, b: a != b, lambda a, b: a.not_equal(b))}
    for dimB in (2, 3, 4):
        if dimB == dim:
            continue
        for ba, bb in itertools.product(BK, BK):
            for fa, fb in (("generic", "generic"), ("momentum", "generic"), ("generic", "momentum")):
                va, vb = operand(ba, dim, L.CART[dim], fa, "a"), operand(bb, dimB, L.SYSTEMS[dimB][-1], fb, "b")
                for name, (f, g) in forms.items():
                    res.states += 1
                    res.transitions += 2
                    res.evaluations += 1
                    case = {"op": "__operators__", "operator_dimension": name, "dimA": dim, "dimB": dimB, "ba": ba, "bb": bb, "fa": fa, "fb": fb}
                    cls = f"operator_dimension|{name}|{dim}Dx{dimB}D|{ba}x{bb}"
                    try:
                        g(va, vb)
                        res.violation(cls + "|method_accepts", f"method form of {name} accepted a {dim}D and a {dimB}D operand", case)
                        continue
                    except TypeError:
                        pass
                    except Exception as e:  # noqa: BLE001
                        res.count(f"method_raises_{type(e).__name__}_for_dimension_mismatch")
                        continue
                    res.traces += 1
                    try:
                        o = f(va, vb)
                    except Exception as e:  # noqa: BLE001
                        if isinstance(e, TypeError):
                            res.nontrivial += 1
                        else:
                            res.count(f"operator_raises_{type(e).__name__}_for_dimension_mismatch")
                        continue
                    res.violation(cls + "|returns", f"operator {name} between a {dim}D {ba} and a {dimB}D {bb} vector returned {describe(o)}; the method form raises TypeError", case)


def run_keyword_forms(res: Result, dim):
    """every argument passed by its documented name (in reverse order) gives the same value and type as the positional call"""
    from ..catalogue import KWARGS, kwcall

    for op in OPS:
        if dim not in op.dims or op.name not in KWARGS or op.variant in ("beta", "gamma"):
            continue
        sc = scalars_for(op)
        dimBs = [None] if op.other is None else ([dim] if op.other == "same" else [d for d in op.other])
        for dimB in dimBs:
            for ba in BK:
                for sa in (L.CART[dim], L.SYSTEMS[dim][-1]):
                    fa = "momentum" if (op.momentum_only or sa != L.CART[dim]) else "generic"
                    va = operand(ba, dim, sa, fa, "a")
                    others = []
                    if dimB is not None:
                        if "boost" in op.name and dimB == 3:
                            vb = operand("OBJ" if ba in ("OBJ", "AKR") else ba, 3, L.CART[3], "generic", "a").scale(0.0625)
                        else:
                            vb = operand("OBJ" if ba in ("OBJ", "AKR") else ba, dimB, L.SYSTEMS[dimB][-1] if sa == L.CART[dim] else L.CART[dimB], "generic", "b")
                        others = [vb]
                    res.states += 1
                    res.transitions += 2
                    res.evaluations += 1
                    case = {"op": "__operators__", "keyword_form": op.key, "dimA": dim, "dimB": dimB, "ba": ba, "sysA": list(sa)}
                    cls = f"keyword_form|{op.key}|{dim}D|{ba}"
                    try:
                        m = op.call(va, others, sc)
                    except Exception:  # noqa: BLE001
                        res.count("positional_form_raises")
                        continue
                    res.traces += 1
                    try:
                        o = kwcall(op, va, others, sc)
                    except Exception as e:  # noqa: BLE001
                        res.violation(cls + f"|raises|{type(e).__name__}", f"{op.name} called with its documented keyword names raised {type(e).__name__}: {str(e).strip()[:140]}; the positional call returns", case)
                        continue
                    do, dm = describe(o), describe(m)
                    if do != dm if do[0] == "vec" else do[0] != dm[0]:
                        res.violation(cls + "|type", f"{op.name} with keyword arguments returned {do}, positionally {dm}", case)
                    elif do[0] == "vec" and B.result_rows(o)[3] != B.result_rows(m)[3]:
                        res.violation(cls + "|value", f"{op.name} with keyword arguments returned {B.result_rows(o)[3]}, positionally {B.result_rows(m)[3]}", case)
                    elif do[0] != "vec" and B.scalar_values(o)[0] != B.scalar_values(m)[0]:
                        res.violation(cls + "|value", f"{op.name} with keyword arguments returned {B.scalar_values(o)[0]}, positionally {B.scalar_values(m)[0]}", case)
                    else:
                        res.nontrivial += 1


def run_shard(shard, tier):
    res = Result()
    if shard["op"] == "__operators__":
        run_operators(res, shard["dimA"])
        run_operator_dimension(res, shard["dimA"])
        run_keyword_forms(res, shard["dimA"])
        res.sample({"operators": "+ - * / @ == != neg pos abs ** (2, 3, 0.5, -1), NumPy-scalar / 0-d / array factors on either side; keyword forms of every method", "dim": shard["dimA"], "backend_pairings": 16})
        return res
    op = BY_KEY[shard["op"]]
    run_op(res, op, shard["dimA"], shard["dimB"], tier)
    if shard["dimA"] == op.dims[0] and shard["dimB"] in (None, 3):
        res.sample({"op": op.key, "dimA": shard["dimA"], "dimB": shard["dimB"], "allowed": allowed(op, shard["dimA"], shard["dimB"]), "cases": res.states})
    return res


def finalize(total, tier, complete):
    mis = missing_from_code()
    if mis:
        total.violation("catalogued_name_missing", f"public methods missing from the code: {mis}", {"missing": mis})


def replay(case):
    res = Result()
    if case["op"] == "__operators__":
        if case.get("keyword_form"):
            run_keyword_forms(res, case["dimA"])
        elif case.get("operator_dimension"):
            run_operator_dimension(res, case["dimA"])
        else:
            run_operators(res, case["dimA"])
        return res
    if case.get("like"):
        run_op(res, BY_KEY[case["op"]], case["dimA"], case["dimB"], "quick")
        return res
    only = (case["ba"], case["bb"], tuple(case["sysA"]), tuple(case["sysB"]) if case.get("sysB") else None, case["fa"], case["fb"])
    run_op(res, BY_KEY[case["op"]], case["dimA"], case["dimB"], "thorough", only=only)
    return res
