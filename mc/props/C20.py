"""C20 — operations leave no trace in global state and are thread-deterministic.

(a) HistoryExplorer over M_glob.  A *state is a process*: histories of public calls
    (about 60 events: every backend and wrapper branch, constructors, reducers, numpy
    functions, conversions, in-place operators, pickling, SymPy, calls that raise or hit
    singular inputs, and the registry events register_awkward / register_numba) are
    explored as a fork tree - the state after a prefix is a forked process, every
    extension by one event runs in its own child, so every history starts from the exact
    state its prefix left behind (lazy imports included) - under a set of prior
    configurations of numpy.seterr / warnings / print options.  After every event the
    M_glob snapshot must equal the snapshot before it (registry events: exactly the
    documented change, idempotently).
(b) ScheduleExplorer.  Two (thorough: also three) real threads run vector calls over
    *shared* operands under the sys.settrace scheduler of mc/sched.py; all schedules with
    at most 1 (thorough: 2 for the object-backend pairs) preemptions at Python-line
    granularity inside src/vector are executed; each thread's results must equal, bit for
    bit, those of a sequential execution, operands and M_glob must be unchanged.
"""

from __future__ import annotations

import hashlib
import json
import os
import sys
import time
import traceback

import numpy as np

from .. import build as B
from .. import env
from .. import glob as Gl
from .. import sched
from ..result import Result

import awkward as ak  # noqa: E402
import numba  # noqa: E402,F401  (imported up front: importing numba itself is not vector state, and it is slow to do in every forked history)
import sympy  # noqa: E402,F401
import vector  # noqa: E402

ID = "C20"
RULE = (
    "(a) a state is an event history under a prior configuration; every history up to the depth bound is executed in its own forked process from the state its "
    "prefix left, and the global-state snapshot is compared after every event; (b) a state is a schedule (choice sequence) of a thread harness; every schedule "
    "with at most the stated number of preemptions is executed and its observations compared with the sequential ones. states = histories + schedules, "
    "transitions = events + scheduling decisions, traces = snapshot / observation comparisons; non-trivial = histories of length >= 2 or containing a raising / "
    "registry event, and schedules with at least one preemption"
)
ASSUMPTIONS = [
    "M_glob = numpy.geterr(), numpy.geterrcall(), numpy.get_printoptions(), warnings.filters (list identity and contents), key->identity maps of awkward.behavior and vector.backends.awkward.behavior, vector._awkward_registered",
    "register_awkward() may change exactly awkward.behavior (adding vector's entries, keeping all others) and the flag, idempotently; register_numba() may change no M_glob component",
    "scheduling points are Python line events inside src/vector; NumPy / Awkward / Numba internals, imports and module-level code are atomic steps; memory-model effects below the GIL are not modelled",
    "thread harness operands are generic finite vectors; results are compared bit for bit (class, dtype, bytes / coordinate bit patterns)",
]
CAP_S = {"quick": 2400, "thorough": 10800}
MAXTASKS = 1

QUICK_CONFIGS = ["default", "raise+error", "mixed+call"]


def bounds(tier):
    return {"tier": tier, "events": len(Gl.EVENTS),
            "histories": "depth 2 under 3 configurations, depth 1 under all 13" if tier == "quick" else "depth 3 under the default configuration, depth 2 under all 13",
            "schedules": "all schedules with <= 1 preemption, 2 threads, line granularity, 14 harness pairs; <= 2 preemptions at function-entry granularity for 5 small operator-form harnesses (line granularity in thorough); fresh-process (lazy import) variant for 3 pairs" if tier == "quick"
            else "<= 2 preemptions at line granularity for object-backend pairs (obj_inplace_shared: <= 1 at line granularity and <= 2 at function-entry granularity; two preemptions at line granularity would be ~1.3e6 schedules there), <= 1 otherwise, 2 and 3 threads; fresh-process variant for 6 pairs"}


def shards(tier):
    out = []
    names = list(Gl.EVENTS)
    if tier == "quick":
        for c in Gl.CONFIGS:
            depth = 2 if c in QUICK_CONFIGS else 1
            if depth == 2:
                for k in range(0, len(names), 8):
                    out.append({"kind": "history", "config": c, "depth": 2, "first": names[k : k + 8]})
            else:
                out.append({"kind": "history", "config": c, "depth": 1, "first": names})
    else:
        for c in Gl.CONFIGS:
            depth = 3 if c == "default" else 2  # depth 3 is cubic in the event alphabet (~90 events): one configuration only
            step = 2 if depth == 3 else 8
            for k in range(0, len(names), step):
                out.append({"kind": "history", "config": c, "depth": depth, "first": names[k : k + step]})
    hist, out = out, []
    for name in HARNESSES:
        if name in BOUND2:
            if tier == "quick" and name == "np2_eq_abs":
                continue  # thorough only
            if tier == "quick":
                nsl = 8 if name.startswith("ak") else 1
                for k in range(nsl):
                    out.append({"kind": "schedule", "harness": name, "bound": 2, "fresh": False, "granularity": "entry", **({"slice": [k, nsl]} if nsl > 1 else {})})
            else:
                nsl = 16 if BOUND2[name] == "line" else 1
                for k in range(nsl):
                    out.append({"kind": "schedule", "harness": name, "bound": 2, "fresh": False, "granularity": BOUND2[name], "slice": [k, nsl]})
        elif harness_bound(name, tier) == 2 and name in LINE_BOUND2_INFEASIBLE:
            # ~1600 line-level scheduling points: two preemptions at line granularity are ~1.3e6 schedules (about 15 CPU hours);
            # explored with <= 1 preemption at line granularity and <= 2 preemptions at function-entry granularity (~5e4 schedules)
            out.append({"kind": "schedule", "harness": name, "bound": 1, "fresh": False})
            for k in range(4):
                out.append({"kind": "schedule", "harness": name, "bound": 2, "fresh": False, "granularity": "entry", "slice": [k, 4]})
        elif harness_bound(name, tier) == 2:
            # bound 2 at line granularity is quadratic in the number of scheduling points: split by first-level deviation
            for k in range(16):
                out.append({"kind": "schedule", "harness": name, "bound": 2, "fresh": False, "slice": [k, 16]})
        else:
            out.append({"kind": "schedule", "harness": name, "bound": harness_bound(name, tier), "fresh": False})
    fresh = ["np2_add_shared", "obj2_add_shared", "ak2_scale_vs_Array", "ak_register_vs_zip"] + (["np_add_shared", "obj_add_shared", "ak_add_vs_Array"] if tier == "thorough" else [])
    for name in fresh:
        out.append({"kind": "schedule", "harness": name, "bound": 1, "fresh": True})
    if tier == "thorough":
        for name in ("np_three_threads", "obj_three_threads"):
            out.append({"kind": "schedule", "harness": name, "bound": 1, "fresh": False})
    # longest shards first (the schedule explorations), then the history fork trees
    cost = {"ak_add_shared": 9, "obj_inplace_shared": 8, "np_sum": 8, "ak_add_vs_Array": 7, "ak_record_vs_array": 7, "ak2_operators": 6}
    out.sort(key=lambda sh: -cost.get(sh["harness"], 5 if sh["fresh"] else 3))
    return out + hist + [{"kind": "raising_ops", "config": c} for c in Gl.CONFIGS]


# ======================================================================================== (a) histories
def _diff(a, b):
    out = []
    for k in a:
        if a[k] != b[k]:
            if k in ("awkward.behavior", "vector.behavior"):
                sa, sb = set(a[k]), set(b[k])
                out.append(f"{k}: +{len(sb - sa)} -{len(sa - sb)} entries")
            elif k == "warnings.filters":
                fa, fb = list(a[k][1]), list(b[k][1])
                added = [f for f in fb if f not in fa]
                removed = [f for f in fa if f not in fb]
                out.append(f"warnings.filters: added {added}, removed {removed}" + ("" if (added or removed) else " (the list object was replaced)"))
            elif k == "numpy.geterrcall":
                out.append("numpy.geterrcall changed")
            else:
                out.append(f"{k}: {a[k]!r} -> {b[k]!r}")
    return "; ".join(out)


def run_event(name, hist, config):
    """Execute one event in the current process, compare M_glob.  Returns a record."""
    before = Gl.snapshot()
    raised = None
    digest = None
    try:
        value = Gl.EVENTS[name]()
    except BaseException as e:  # noqa: BLE001
        raised = type(e).__name__
    after = Gl.snapshot()
    if raised is None:
        try:
            digest = hashlib.sha1(repr(_digestable(value)).encode()).hexdigest()[:16]
        except Exception as e:  # noqa: BLE001
            digest = f"undigestable:{type(e).__name__}"
    rec = {"event": name, "raised": raised, "violation": None, "digest": digest}
    if name == "register_awkward()":
        import vector.backends.awkward as vba

        exp = dict(before)
        exp["vector._awkward_registered"] = True
        merged = dict(before["awkward.behavior"])
        merged.update(dict(before["vector.behavior"]))
        exp["awkward.behavior"] = tuple(sorted(merged.items()))
        if after != exp:
            rec["violation"] = ("registry", f"register_awkward() changed more than the registry: {_diff(exp, after)}")
    elif after != before:
        rec["violation"] = ("global_state", f"{name} changed process-wide state: {_diff(before, after)}" + (f" (the call raised {raised})" if raised else ""))
    return rec


def _digestable(x):
    """bit-exact, order-preserving, process-independent description of an event's return value"""
    if isinstance(x, (tuple, list)):
        return [type(x).__name__] + [_digestable(v) for v in x]
    if isinstance(x, (vector.Vector, np.ndarray, ak.Array, ak.Record)):
        return observe(x)
    if isinstance(x, (np.generic,)):
        return (type(x).__name__, x.tobytes().hex())
    if isinstance(x, float):
        return ("float", x.hex())
    if isinstance(x, (bool, int, str, type(None), bytes)):
        return (type(x).__name__, x)
    if isinstance(x, sympy.Basic):
        return ("sympy", sympy.srepr(x))
    return (type(x).__name__, repr(x))


def fork_tree(prefix, depth_left, config, firsts, out):
    """Explore all extensions of `prefix` (this process *is* the state after prefix)."""
    names = firsts if firsts is not None else list(Gl.EVENTS)
    for name in names:
        r, w = os.pipe()
        pid = os.fork()
        if pid == 0:
            code = 0
            try:
                os.close(r)
                sub = []
                rec = run_event(name, prefix, config)
                sub.append({"history": prefix + [name], **rec})
                if depth_left > 1:
                    fork_tree(prefix + [name], depth_left - 1, config, None, sub)
                data = json.dumps(sub).encode()
                with os.fdopen(w, "wb") as fh:
                    fh.write(data)
            except BaseException:  # noqa: BLE001
                code = 3
                try:
                    os.write(w, json.dumps([{"history": prefix + [name], "harness_error": traceback.format_exc()}]).encode())
                except Exception:  # noqa: BLE001
                    pass
            finally:
                os._exit(code)
        os.close(w)
        chunks = []
        with os.fdopen(r, "rb") as fh:
            while True:
                b = fh.read(1 << 16)
                if not b:
                    break
                chunks.append(b)
        os.waitpid(pid, 0)
        data = b"".join(chunks)
        if not data:
            out.append({"history": prefix + [name], "harness_error": "child produced no output"})
        else:
            out.extend(json.loads(data))


def run_history_shard(res: Result, shard, tier):
    if any(m.startswith("vector._compute.planar.") for m in sys.modules):
        raise RuntimeError("harness: compute modules already imported in the exploring process (state is not fresh)")
    config = shard["config"]
    # reference under the default configuration (before this process is configured): what a call returns or raises must not depend
    # on the caller's prior numpy.seterr / warnings / print settings (reprs excepted: they follow the print options by design)
    refs_default = []
    if config != "default":
        fork_tree([], 1, "default", None, refs_default)
    ref_default = {r["history"][-1]: (r.get("raised"), r.get("digest")) for r in refs_default if "harness_error" not in r}
    # the exploring process itself becomes the configured initial state (it is a one-shard worker)
    Gl.apply_config(config)
    out = []
    # reference: every event as the first call in a process of this configuration (results of pure functions of their
    # operands cannot depend on what was called before)
    refs = []
    fork_tree([], 1, config, None, refs)
    ref = {r["history"][-1]: (r.get("raised"), r.get("digest")) for r in refs if "harness_error" not in r}
    fork_tree([], shard["depth"], config, shard["first"], out)
    abstract = set()
    for rec in out:
        if "harness_error" in rec:
            raise RuntimeError(f"history {rec['history']}: {rec['harness_error']}")
        res.states += 1
        res.transitions += 1
        res.traces += 1
        res.evaluations += 1
        hist = rec["history"]
        if len(hist) >= 2 or rec["raised"] or hist[-1] in Gl.REGISTRY:
            res.nontrivial += 1
        if rec["raised"]:
            res.count("events_that_raised")
        registered = "register_awkward()" in hist
        abstract.add((config, registered))
        if (rec["violation"] is None and len(hist) == 1 and hist[-1] in ref_default and not hist[-1].startswith("repr") and hist[-1] not in Gl.REGISTRY
                and (rec.get("raised"), rec.get("digest")) != ref_default[hist[-1]]):
            rec["violation"] = ("configuration_dependent_result", f"{hist[-1]} under the prior configuration {config!r}: raised {rec.get('raised')} / digest {rec.get('digest')}, "
                                f"under the default configuration: raised {ref_default[hist[-1]][0]} / digest {ref_default[hist[-1]][1]}")
        if rec["violation"] is None and hist[-1] in ref and (rec.get("raised"), rec.get("digest")) != ref[hist[-1]]:
            rec["violation"] = ("history_dependent_result", f"{hist[-1]} gives a different result (or raises differently) after {hist[:-1]} than as the first call of the process: "
                                f"raised {rec.get('raised')} / digest {rec.get('digest')} vs raised {ref[hist[-1]][0]} / digest {ref[hist[-1]][1]}")
        if rec["violation"]:
            clause, msg = rec["violation"]
            res.violation(f"{clause}|{hist[-1]}|after:{'+'.join(hist[:-1]) or 'fresh'}|{config}" if clause == "global_state" else f"{clause}|{hist[-1]}|{config}",
                          f"[config {config}] history {hist}: {msg}", {"kind": "history", "config": config, "history": hist})
    for a in abstract:
        res.add_to("abstract_states", f"{a[0]}|registered={a[1]}")
    res.sample({"kind": "history", "config": config, "depth": shard["depth"], "first_events": shard["first"][:3], "histories": len(out)})


# ======================================================================================== (b) schedules
def _np4(seed):
    base = np.array([[1.5, 0.75, 0.875, 2.5], [-0.625, 2.25, -1.375, 3.5], [0.1875, 3.5, 0.625, 4.25]]) + 0.125 * seed
    return vector.array({"x": base[:, 0].copy(), "y": base[:, 1].copy(), "z": base[:, 2].copy(), "t": base[:, 3].copy()})


def _np4m(seed):
    return vector.array({"pt": np.array([1.5, 2.0, 0.75]) + seed, "phi": np.array([0.5, -2.0, 3.0]), "eta": np.array([0.25, -1.0, 0.5]), "mass": np.array([1.25, 0.5, 2.0])})


def _o4(seed):
    return vector.obj(px=1.5 + seed, py=0.75, pz=0.875, E=4.5 + seed)


def _o4tau(seed):
    return vector.obj(rho=1.5 + seed, phi=0.5, eta=0.25, tau=1.25)


def _ak4(seed):
    return vector.Array([[{"x": 1.5 + seed, "y": 0.75, "z": 0.875, "t": 4.5}, {"x": -0.625, "y": 2.25, "z": -1.375, "t": 5.5}], [], [{"x": 0.25, "y": 0.5, "z": 0.0, "t": 1.0 + seed}]])


def _h_np_add_shared():
    a, b, c = _np4(0), _np4(1), _np4(2)
    return [lambda: a.add(b), lambda: c.add(b)], [a, b, c]


def _h_np_boost_vs_to():
    a, b = _np4(0), _np4m(0)
    return [lambda: a.boost_p4(b), lambda: b.to_xyzt()], [a, b]


def _h_np_slices():
    a = _np4m(0)
    return [lambda: a[1:].rho, lambda: (a[:2].to_Vector3D(), a[:1].x)], [a]


def _h_np_sum():
    a = _np4m(0)
    return [lambda: np.sum(a, axis=0), lambda: (a.sum(), np.count_nonzero(a))], [a]


def _h_np_mixed_obj():
    a, o = _np4(0), _o4(0)
    return [lambda: a.add(o), lambda: o.boost_p4(a)], [a, o]


def _h_obj_add_shared():
    a, b, c = _o4(0), _o4tau(0), _o4(1)
    return [lambda: a.add(b), lambda: c.subtract(b)], [a, b, c]


def _h_obj_boost():
    a, b = _o4(0), _o4tau(0)
    return [lambda: a.boost_p4(b), lambda: b.boostCM_of_p4(a)], [a, b]


def _h_obj_inplace_shared():
    b = _o4tau(0)
    state = {}

    def p0():
        v = _o4(0)
        v += b
        v *= 2
        return v

    def p1():
        w = _o4(1)
        w -= b
        w.pt = 3.0
        return w

    return [p0, p1], [b]


def _h_obj_rotations():
    a = vector.obj(rho=1.5, phi=0.5, eta=0.25)
    ax = vector.obj(x=0.5, y=-1.25, z=2.0)
    return [lambda: a.rotate_axis(ax, 0.3), lambda: a.rotate_euler(0.1, 0.2, 0.3, "yzx")], [a, ax]


def _h_ak_add_shared():
    a, b = _ak4(0), _ak4(1)
    return [lambda: a.add(b), lambda: b.to_rhophietatau()], [a, b]


def _h_ak_add_vs_Array():
    a = _ak4(0)
    return [lambda: a.add(a), lambda: vector.Array([[{"pt": 1.0, "phi": 0.5}], []]).to_xy()], [a]


def _h_ak_zip_vs_op():
    a = _ak4(0)
    return [lambda: a.scale(2.0), lambda: vector.zip({"x": ak.Array([1.0, 2.0]), "y": ak.Array([0.5, 0.25])}).rho], [a]


def _h_ak_record_vs_array():
    a = _ak4(0)
    return [lambda: a[0, 0].add(a[0, 1]), lambda: ak.sum(a, axis=1)], [a]


def _h_ak_np_cast():
    a = vector.Array([{"x": 1.0, "y": 2.0}, {"x": 3.0, "y": 4.0}])
    n = vector.array({"px": np.array([1.0, 2.0]), "py": np.array([0.0, 1.0])})
    return [lambda: a + n, lambda: n.add(a)], [a, n]


def _h_np2_add_shared():
    b = vector.array({"x": np.array([1.5, -0.625]), "y": np.array([0.75, 2.25])})
    a = vector.array({"rho": np.array([1.0, 2.0]), "phi": np.array([0.5, -2.0])})
    return [lambda: a.add(b), lambda: b.rotateZ(0.3)], [a, b]


def _h_obj2_add_shared():
    a, b = vector.obj(x=1.5, y=0.75), vector.obj(pt=2.0, phi=-2.0)
    return [lambda: a.add(b), lambda: b.deltaphi(a)], [a, b]


def _h_ak2_scale_vs_Array():
    a = vector.Array([[{"x": 1.5, "y": 0.75}], [], [{"x": -0.625, "y": 2.25}]])
    return [lambda: a.scale(2.0), lambda: vector.Array([{"pt": 1.0, "phi": 0.5}]).x], [a]


def _h_ak_register_vs_zip():
    """one thread registers the Awkward behaviors globally while the other builds a vector array from plain columns and uses it"""
    def build():
        r = vector.zip({"x": ak.Array([3.0, 6.0]), "y": ak.Array([4.0, 8.0])})
        return (r.rho, (r + r).x)

    return [lambda: vector.register_awkward(), build], []


REGISTRY_HARNESSES = {"ak_register_vs_zip"}


def _glob_after(name, g0):
    """the process-wide state a harness may legitimately leave behind, given the state before"""
    if name not in REGISTRY_HARNESSES:
        return g0
    exp = dict(g0)
    exp["vector._awkward_registered"] = True
    merged = dict(g0["awkward.behavior"])
    merged.update(dict(g0["vector.behavior"]))
    exp["awkward.behavior"] = tuple(sorted(merged.items()))
    return exp


def _np2(seed):
    return vector.array({"x": np.array([1.5, -0.625]) + seed, "y": np.array([0.75, 2.25])})


def _h_np2_truediv():
    a, b = _np2(0), _np2(1)
    return [lambda: a / 2.0, lambda: b / 4.0], [a, b]


def _h_np2_mul_neg():
    a, b = _np2(0), vector.array({"pt": np.array([1.0, 2.0]), "phi": np.array([0.5, -2.0])})
    return [lambda: a * 2.0, lambda: -b], [a, b]


def _h_np2_eq_abs():
    a, b = _np2(0), _np2(1)
    return [lambda: a == b, lambda: (abs(b), b**2)], [a, b]


def _h_obj2_operators():
    a, b = vector.obj(x=1.5, y=0.75), vector.obj(pt=2.0, phi=-2.0)
    return [lambda: a / 2.0, lambda: (-b, b * 3.0)], [a, b]


def _h_ak2_operators():
    a = vector.Array([[{"x": 1.5, "y": 0.75}], [], [{"x": -0.625, "y": 2.25}]])
    b = vector.Array([[{"rho": 1.0, "phi": 0.5}], [{"rho": 2.0, "phi": -2.0}]])
    return [lambda: a / 2.0, lambda: (b * 3.0, -b)], [a, b]


def _h_np_three():
    a, b, c = _np4(0), _np4(1), _np4(2)
    return [lambda: a.add(b), lambda: c.add(b), lambda: b.unit()], [a, b, c]


def _h_obj_three():
    a, b, c = _o4(0), _o4tau(0), _o4(1)
    return [lambda: a.add(b), lambda: c.subtract(b), lambda: b.to_xyzt()], [a, b, c]


def _h_ak_same_op_params():
    # both threads inside the same compute function with the same signature but different scalar parameters
    a = vector.Array([[{"x": 1.5, "y": 0.75}], [], [{"x": -0.625, "y": 2.25}]])
    return [lambda: (a.scale(2.0), a.rotateZ(0.5)), lambda: (a.scale(-3.0), a.rotateZ(-1.25))], [a]


def _h_np_same_op_params():
    a = _np2(0)
    return [lambda: (a.scale(2.0), a.rotateZ(0.5), a.isclose(a, rtol=0.5)), lambda: (a.scale(-3.0), a.rotateZ(-1.25), a.isclose(a, rtol=0.0))], [a]


def _h_obj_same_op_params():
    a = vector.obj(rho=1.5, phi=0.75, eta=0.5, tau=2.0)
    return [lambda: (a.scale(2.0), a.rotateZ(0.5), a.boostZ(beta=0.25)), lambda: (a.scale(-3.0), a.rotateZ(-1.25), a.boostZ(beta=-0.5))], [a]


HARNESSES = {
    "np_add_shared": _h_np_add_shared, "np_boost_vs_to": _h_np_boost_vs_to, "np_slices": _h_np_slices, "np_sum": _h_np_sum, "np_mixed_obj": _h_np_mixed_obj,
    "obj_add_shared": _h_obj_add_shared, "obj_boost": _h_obj_boost, "obj_inplace_shared": _h_obj_inplace_shared, "obj_rotations": _h_obj_rotations,
    "ak_add_shared": _h_ak_add_shared, "ak_add_vs_Array": _h_ak_add_vs_Array, "ak_zip_vs_op": _h_ak_zip_vs_op, "ak_record_vs_array": _h_ak_record_vs_array, "ak_np_cast": _h_ak_np_cast,
}
# harnesses explored with TWO preemptions (operator forms: the ufunc / behavior dispatch paths); small programs so that
# the quadratic number of schedules stays affordable; the Awkward one at function-entry granularity
BOUND2 = {"np2_truediv": "line", "np2_mul_neg": "line", "np2_eq_abs": "line", "obj2_operators": "line", "ak2_operators": "entry"}
HARNESSES.update({"np2_truediv": _h_np2_truediv, "np2_mul_neg": _h_np2_mul_neg, "np2_eq_abs": _h_np2_eq_abs, "obj2_operators": _h_obj2_operators, "ak2_operators": _h_ak2_operators})
HARNESSES.update({"ak_same_op_params": _h_ak_same_op_params, "np_same_op_params": _h_np_same_op_params, "obj_same_op_params": _h_obj_same_op_params})
EXTRA_HARNESSES = {"np_three_threads": _h_np_three, "obj_three_threads": _h_obj_three,
                   "ak_register_vs_zip": _h_ak_register_vs_zip, "np2_add_shared": _h_np2_add_shared, "obj2_add_shared": _h_obj2_add_shared, "ak2_scale_vs_Array": _h_ak2_scale_vs_Array}


LINE_BOUND2_INFEASIBLE = {"obj_inplace_shared"}


def harness_bound(name, tier):
    if name in BOUND2:
        return 2
    if tier == "thorough" and name.startswith("obj_"):
        return 2
    return 1


def observe(x):
    """bit-exact, hashable observation of a program result"""
    if isinstance(x, tuple):
        return ("tuple",) + tuple(observe(v) for v in x)
    snap = B.snapshot(x)
    if snap[0] == "AK":
        # behavior identity is per-array; compare class, form, buffers, fields, record name
        return snap[:5] + snap[6:]
    if snap[0] == "NP":
        return snap[:7]
    return snap


def sequential_reference(make):
    programs, operands = make()
    return tuple(observe(p()) for p in programs)


def run_schedule_shard(res: Result, shard, tier):
    name = shard["harness"]
    make = HARNESSES.get(name) or EXTRA_HARNESSES[name]
    bound = shard["bound"]
    if shard["fresh"]:
        return run_schedule_forked(res, shard, make, name, bound)
    # warm up (imports), reference observations, determinism of the default schedule
    ref = sequential_reference(make)
    ref2 = sequential_reference(make)
    if ref != ref2:
        raise RuntimeError(f"harness {name}: sequential execution is not deterministic")
    outcomes = set()

    def mk():
        programs, operands = make()
        return programs, {"operands": operands, "before": [B.snapshot(o) for o in operands], "glob": Gl.snapshot()}

    def check(x, ctx):
        res.states += 1
        res.evaluations += 1
        res.transitions += len(x.points)
        res.traces += 1
        case = {"kind": "schedule", "harness": name, "choices": x.choices, "bound": bound, "granularity": gran}
        npre = sum(1 for p, c in zip(x.points, x.choices) if p["still_enabled"] and c != 0)
        where = [x.points[i]["label"] for i, c in enumerate(x.choices) if c != 0 and x.points[i]["still_enabled"]]
        for t, e in enumerate(x.errors):
            if e is not None:
                res.violation(f"schedule_exception|{name}|{type(e).__name__}", f"thread {t} raised {type(e).__name__}: {e} under schedule {x.choices} (preempted at {where})", case)
                return
        obs = tuple(observe(r) for r in x.results)
        outcomes.add(obs)
        if obs != ref:
            diff = [t for t in range(len(obs)) if obs[t] != ref[t]]
            res.violation(f"schedule_result|{name}", f"threads {diff} computed results different from the sequential ones under schedule {x.choices} (preempted at {where})", case)
            return
        after = [B.snapshot(o) for o in ctx["operands"]]
        if after != ctx["before"]:
            res.violation(f"schedule_operand_modified|{name}", f"shared operands changed under schedule {x.choices}", case)
            return
        if Gl.snapshot() != ctx["glob"]:
            res.violation(f"schedule_global_state|{name}", f"global state changed under schedule {x.choices}: {_diff(ctx['glob'], Gl.snapshot())}", case)
            return
        if npre:
            res.nontrivial += 1

    # replay determinism: the default schedule twice must take identical decisions
    gran = shard.get("granularity", "line")
    p1, c1 = mk()
    e1 = sched.Execution(p1, [], gran).run()
    p2, c2 = mk()
    e2 = sched.Execution(p2, [], gran).run()
    if [(p["running"], p["label"]) for p in e1.points] != [(p["running"], p["label"]) for p in e2.points]:
        raise RuntimeError(f"harness {name}: the default schedule is not reproducible (different scheduling points on two runs)")
    first_slice = tuple(shard["slice"]) if shard.get("slice") else None
    template = _Template(lambda: _forked_from_here(shard, make, name, bound, gran, first_slice, repr(ref)))
    try:
        stats = sched.explore(mk, bound, check, granularity=gran, first_slice=first_slice)
        template.discard()
    except sched.Divergence as e:
        # The same choice prefix reached different scheduling points than when it was recorded: executions in this process
        # influence later ones.  That alone is not a violation (a correct cache would do it); the exploration is redone with
        # every schedule in its own forked copy of the present process state, which cannot be influenced by earlier ones.
        res.count("in_process_replay_diverged_redone_forked")
        res.sample({"kind": "schedule", "harness": name, "note": f"in-process exploration diverged ({str(e)[:160]}); redone with one forked process per schedule"})
        res.merge(template.run())  # explored from the warmed-up state as it was *before* the in-process executions
        return None
    res.counters[f"schedules_{name}"] = res.counters.get(f"schedules_{name}", 0) + stats["executions"]
    res.counters["scheduling_points_max"] = max(res.counters.get("scheduling_points_max", 0), stats["points_max"])
    res.counters["preemption_bound_max"] = max(res.counters.get("preemption_bound_max", 0), bound)
    res.counters[f"distinct_outcomes_{name}"] = len(outcomes)
    if len(outcomes) > 1 and not res.violation_classes():
        raise RuntimeError(f"harness {name}: {len(outcomes)} distinct outcomes but no violation recorded")
    res.sample({"kind": "schedule", "harness": name, "threads": len(make()[0]), "preemption_bound": bound, "granularity": gran, "schedules": stats["executions"], "scheduling_points": stats["points_max"], "distinct_outcomes": len(outcomes)})


class _Template:
    """A forked copy of the present (warmed-up, not yet explored) process state, parked until needed."""

    def __init__(self, job):
        import pickle

        self.go_r, self.go_w = os.pipe()
        self.out_r, self.out_w = os.pipe()
        self.pid = os.fork()
        if self.pid == 0:
            code = 0
            try:
                os.close(self.go_w)
                os.close(self.out_r)
                if os.read(self.go_r, 1) == b"g":
                    with os.fdopen(self.out_w, "wb") as fh:
                        pickle.dump(job(), fh)
            except BaseException:  # noqa: BLE001
                code = 3
                try:
                    os.write(self.out_w, pickle.dumps(RuntimeError(traceback.format_exc())))
                except Exception:  # noqa: BLE001
                    pass
            finally:
                os._exit(code)
        os.close(self.go_r)
        os.close(self.out_w)

    def discard(self):
        os.write(self.go_w, b"x")
        os.close(self.go_w)
        os.close(self.out_r)
        os.waitpid(self.pid, 0)

    def run(self):
        import pickle

        os.write(self.go_w, b"g")
        os.close(self.go_w)
        with os.fdopen(self.out_r, "rb") as fh:
            data = fh.read()
        os.waitpid(self.pid, 0)
        out = pickle.loads(data) if data else RuntimeError("no output from the template process")
        if isinstance(out, BaseException):
            raise out
        return out


def _forked_from_here(shard, make, name, bound, gran, first_slice, ref_repr):
    r = Result()
    run_schedule_forked(r, shard, make, name, bound, gran=gran, fresh=False, first_slice=first_slice, ref_repr=ref_repr)
    return r


def run_schedule_forked(res: Result, shard, make, name, bound, gran="line", fresh=True, first_slice=None, ref_repr=None):
    """every schedule in its own forked process.  fresh=True: forked from a process that has not imported the compute
    modules, so the first-ever calls (lazy imports) are interleaved; fresh=False: forked from the warmed-up process."""
    if fresh and any(m.startswith("vector._compute.planar.") for m in sys.modules):
        raise RuntimeError("harness: compute modules already imported in the exploring process (state is not fresh)")
    tag = "fresh" if fresh else "forked"

    def child(prefix, want_ref):
        r, w = os.pipe()
        pid = os.fork()
        if pid == 0:
            code = 0
            try:
                os.close(r)
                if want_ref:
                    out = {"ref": repr(sequential_reference(make))}
                else:
                    programs, operands = make()
                    before = [B.snapshot(o) for o in operands]
                    g0 = Gl.snapshot()
                    x = sched.Execution(programs, prefix, gran).run()
                    out = {"choices": x.choices, "points": [{"running": p["running"], "enabled": p["enabled"], "label": list(p["label"]) if isinstance(p["label"], tuple) else p["label"], "still_enabled": p["still_enabled"]} for p in x.points],
                           "nlabels": len(x.labels), "errors": [None if e is None else f"{type(e).__name__}: {e}" for e in x.errors], "obs": repr(tuple(observe(v) for v in x.results)),
                           "operands_same": [B.snapshot(o) for o in operands] == before, "glob_same": Gl.snapshot() == _glob_after(name, g0)}
                with os.fdopen(w, "wb") as fh:
                    fh.write(json.dumps(out).encode())
            except BaseException:  # noqa: BLE001
                code = 3
                try:
                    os.write(w, json.dumps({"harness_error": traceback.format_exc()}).encode())
                except Exception:  # noqa: BLE001
                    pass
            finally:
                os._exit(code)
        os.close(w)
        with os.fdopen(r, "rb") as fh:
            data = fh.read()
        os.waitpid(pid, 0)
        out = json.loads(data) if data else {"harness_error": "no output"}
        if "harness_error" in out:
            raise RuntimeError(out["harness_error"])
        return out

    ref = ref_repr if ref_repr is not None else child([], True)["ref"]
    outcomes = set()

    class X:
        pass

    def runner(prefix):
        o = child(prefix, False)
        x = X()
        x.choices = o["choices"]
        x.points = [dict(p, label=tuple(p["label"]) if isinstance(p["label"], list) else p["label"]) for p in o["points"]]
        x.labels = [None] * o["nlabels"]
        x.raw = o

        def pre(i, x=x):
            return sum(1 for j in range(i) if x.points[j]["still_enabled"] and x.choices[j] != 0)

        x.preemptions_before = pre
        return x

    def check(x, ctx):
        o = x.raw
        res.states += 1
        res.evaluations += 1
        res.transitions += len(x.points)
        res.traces += 1
        case = {"kind": "schedule", "harness": name, "choices": x.choices, "bound": bound, "fresh": fresh, "forked": True, "granularity": gran}
        where = [x.points[i]["label"] for i, c in enumerate(x.choices) if c != 0 and x.points[i]["still_enabled"]]
        if any(o["errors"]):
            res.violation(f"schedule_exception|{name}|{tag}", f"a thread raised {o['errors']} under schedule {x.choices} in a {tag} process (preempted at {where})", case)
            return
        outcomes.add(o["obs"])
        if o["obs"] != ref:
            res.violation(f"schedule_result|{name}|{tag}", f"results differ from the sequential ones under schedule {x.choices} in a {tag} process (preempted at {where})", case)
            return
        if not o["operands_same"] or not o["glob_same"]:
            res.violation(f"schedule_state|{name}|{tag}", f"operands or global state changed under schedule {x.choices} in a {tag} process", case)
            return
        if where:
            res.nontrivial += 1

    stats = sched.explore(None, bound, check, runner=runner, first_slice=first_slice)
    res.counters[f"schedules_{tag}_{name}"] = res.counters.get(f"schedules_{tag}_{name}", 0) + stats["executions"]
    res.counters["scheduling_points_max"] = max(res.counters.get("scheduling_points_max", 0), stats["points_max"])
    res.sample({"kind": f"schedule ({tag} process per schedule)", "harness": name, "preemption_bound": bound, "schedules": stats["executions"], "distinct_outcomes": len(outcomes)})


class _Boom(float):
    """a real number whose every arithmetic operation raises: makes any compute function raise *inside* its dispatch"""

    def _boom(self, *a, **k):
        raise ZeroDivisionError("boom")

    __add__ = __radd__ = __sub__ = __rsub__ = __mul__ = __rmul__ = __truediv__ = __rtruediv__ = __pow__ = __rpow__ = __neg__ = __pos__ = __abs__ = _boom
    __floordiv__ = __rfloordiv__ = __mod__ = __rmod__ = __lt__ = __le__ = __gt__ = __ge__ = _boom


def run_raising_ops(res: Result, shard, tier):
    """Every catalogued operation, in every coordinate system, made to raise from inside its compute function (an operand whose
    arithmetic raises): process-wide state must be exactly as before the call, under the shard's prior configuration."""
    from .. import alphabet as A
    from .. import lattice as L
    from .. import sweep as S
    from ..catalogue import OPS
    from ..mplib import OBJ_CLASS
    from .C03 import scalars_for

    config = shard["config"]
    Gl.apply_config(config)
    for op in OPS:
        sc = scalars_for(op)
        for dimA in op.dims:
            for dimB in S.second_dims(op, dimA):
                a = [v for v in A.vectors(dimA, "quick") if v.has("timelike") or dimA < 4][0]
                b = None
                if dimB is not None:
                    b = (S._beta3_partners("quick") if (op.name in ("boost_beta3", "boostCM_of_beta3") or (op.name in ("boost", "boostCM_of") and dimB == 3)) else
                         S._booster_p4("quick") if "boost" in op.name else A.partners(dimB, "quick"))[0]
                for sa, sb in S.signatures(op, dimA, dimB, "diag" if dimB is not None else "all"):
                    sta = S.stored(a, sa)
                    stb = S.stored(b, sb) if b is not None else None
                    if sta is None or (b is not None and stb is None):
                        continue
                    flavor = "momentum" if op.momentum_only else "generic"
                    for which in ((0,) if b is None else (0, 1)):
                        va = L.build_object(OBJ_CLASS[(flavor, dimA)], sa, tuple((_Boom(float(x)) if which == 0 else float(x)) for x in sta))
                        others = [] if b is None else [L.build_object(OBJ_CLASS[("generic", dimB)], sb, tuple((_Boom(float(x)) if which == 1 else float(x)) for x in stb))]
                        res.states += 1
                        res.transitions += 1
                        res.evaluations += 1
                        before = Gl.snapshot()
                        raised = None
                        try:
                            op.call(va, others, sc)
                        except BaseException as e:  # noqa: BLE001
                            raised = type(e).__name__
                        after = Gl.snapshot()
                        res.traces += 1
                        if raised is None:
                            res.count("raising_operand_did_not_make_the_call_raise")
                            continue
                        if after != before:
                            res.violation(f"global_state_after_raise|{op.key}|{config}", f"[config {config}] {op.key} on {L.sysname(sa)}{'/' + L.sysname(sb) if sb else ''} raised {raised} from inside its compute function and left process-wide state changed: {_diff(before, after)}",
                                          {"kind": "raising_ops", "config": config, "op": op.key})
                            Gl.apply_config(config)
                        else:
                            res.nontrivial += 1
    res.sample({"kind": "raising_ops", "config": config, "operations": len(OPS)})


def run_shard(shard, tier):
    res = Result()
    t0 = time.time()
    if shard["kind"] == "raising_ops":
        run_raising_ops(res, shard, tier)
        return res
    if shard["kind"] == "history":
        run_history_shard(res, shard, tier)
        res.counters["history_shard_wall_s_max"] = time.time() - t0
    else:
        run_schedule_shard(res, shard, tier)
        res.counters[f"wall_s_{shard['harness']}{'_fresh' if shard['fresh'] else ''}_max"] = time.time() - t0
    return res


def finalize(total, tier, complete):
    total.counters["abstract_states"] = len(total.sets.get("abstract_states", ()))


def replay(case):
    res = Result()
    if case["kind"] == "raising_ops":
        data = _in_child(lambda: [[c, v["msg"]] for c, v in _raising_child(case).violation_classes().items()])
        for c, m in data:
            res.violation(c, m, case)
        return res
    if case["kind"] == "history":
        # replay the exact history in a forked child of a freshly configured process
        def whole():
            Gl.apply_config(case["config"])
            return [{"history": case["history"][: i + 1], **run_event(name, case["history"][:i], case["config"])} for i, name in enumerate(case["history"])]

        def alone(name):
            Gl.apply_config(case["config"])
            return run_event(name, [], case["config"])

        recs = _in_child(whole)
        ref = {name: _in_child(lambda name=name: alone(name)) for name in dict.fromkeys(case["history"])}
        for rec in recs:
            hist = rec["history"]
            r0 = ref[hist[-1]]
            if rec["violation"] is None and len(hist) == 1 and case["config"] != "default" and not hist[-1].startswith("repr") and hist[-1] not in Gl.REGISTRY:
                rd = _in_child(lambda name=hist[-1]: run_event(name, [], "default"))
                if (rec.get("raised"), rec.get("digest")) != (rd.get("raised"), rd.get("digest")):
                    rec["violation"] = ("configuration_dependent_result", f"{hist[-1]} returns or raises differently under the prior configuration {case['config']!r} than under the default one")
            if rec["violation"] is None and (rec.get("raised"), rec.get("digest")) != (r0.get("raised"), r0.get("digest")):
                rec["violation"] = ("history_dependent_result", f"{hist[-1]} gives a different result after {hist[:-1]} than as the first call of the process")
            if rec["violation"]:
                clause, msg = rec["violation"]
                res.violation(f"{clause}|{hist[-1]}|{case['config']}", f"[config {case['config']}] history {hist}: {msg}", case)
        return res
    # schedules are replayed in a forked child so that a leaked global change cannot influence the second replay
    pre = None
    if case.get("fresh"):
        # the reference comes from its own child so that the replayed execution starts with nothing imported, as when found
        name = case["harness"]
        make = HARNESSES.get(name) or EXTRA_HARNESSES[name]
        pre = _in_child(lambda: repr(sequential_reference(make)))
    elif case.get("forked"):
        # same warm-up as the exploring process: two sequential runs and the default schedule twice
        name = case["harness"]
        make = HARNESSES.get(name) or EXTRA_HARNESSES[name]
        sequential_reference(make)
        pre = repr(sequential_reference(make))
        for _ in range(2):
            sched.Execution(make()[0], [], case.get("granularity", "line")).run()
    data = _in_child(lambda: [[c, v["msg"]] for c, v in _replay_schedule(case, pre).violation_classes().items()])
    for c, m in data:
        res.violation(c, m, case)
    return res


def _raising_child(case):
    r = Result()
    run_raising_ops(r, {"config": case["config"]}, "quick")
    return r


def _in_child(fn):
    r, w = os.pipe()
    pid = os.fork()
    if pid == 0:
        code = 0
        try:
            os.close(r)
            with os.fdopen(w, "wb") as fh:
                fh.write(json.dumps({"ok": fn()}).encode())
        except BaseException:  # noqa: BLE001
            code = 3
            try:
                os.write(w, json.dumps({"harness_error": traceback.format_exc()}).encode())
            except Exception:  # noqa: BLE001
                pass
        finally:
            os._exit(code)
    os.close(w)
    with os.fdopen(r, "rb") as fh:
        data = fh.read()
    os.waitpid(pid, 0)
    out = json.loads(data) if data else {"harness_error": "no output from the child"}
    if "harness_error" in out:
        raise RuntimeError(out["harness_error"])
    return out["ok"]


def _replay_schedule(case, ref_repr=None):
    res = Result()
    name = case["harness"]
    make = HARNESSES.get(name) or EXTRA_HARNESSES[name]
    ref = sequential_reference(make) if ref_repr is None else None
    programs, operands = make()
    before = [B.snapshot(o) for o in operands]
    g0 = Gl.snapshot()
    x = sched.Execution(programs, case["choices"], case.get("granularity", "line")).run()
    obs = tuple(observe(r) for r in x.results)
    if Gl.snapshot() != _glob_after(name, g0):
        res.violation(f"schedule_global_state|{name}", f"global state changed under schedule {case['choices']}: {_diff(_glob_after(name, g0), Gl.snapshot())}", case)
        return res
    if any(e is not None for e in x.errors):
        res.violation(f"schedule_exception|{name}", f"threads raised {x.errors} under schedule {case['choices']}", case)
    elif (obs != ref) if ref_repr is None else (repr(obs) != ref_repr):
        res.violation(f"schedule_result|{name}", f"results differ from the sequential ones under schedule {case['choices']}", case)
    elif [B.snapshot(o) for o in operands] != before:
        res.violation(f"schedule_operand_modified|{name}", "shared operands changed", case)
    return res
