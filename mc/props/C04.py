"""C04 — coordinate conversions and dimension changes lose nothing.

Exhaustive over 20 source systems x 40 to_* targets (generic and momentum spellings) x
keyword choices of imputed coordinates x {60-digit object, float64 object, NumPy,
Awkward} x both flavors x the operand alphabet; plus to_Vector2D/3D/4D, to_2D/3D/4D and
like() with every keyword spelling.
"""

from __future__ import annotations

import itertools

import math

import mpmath
import numpy as np
from mpmath import mpf

from .. import alphabet as A
from .. import build as B
from .. import lattice as L
from .. import model as G
from .. import sweep as S
from ..alphabet import Vec
from ..result import Result

import awkward as ak  # noqa: E402
import vector  # noqa: E402

ID = "C04"
RULE = (
    "cases = backend x flavor x source system x conversion call (40 to_* targets with every imputation-keyword choice; to_VectorND / to_ND / like with every "
    "keyword spelling) x operand; non-trivial = the result's system/flavor, the bit-for-bit pass-through clauses, the imputed values and (where representable) "
    "the geometric value and the round trip were compared; distinct = distinct (backend, flavor, source system, call, keywords, operand)"
)
ASSUMPTIONS = [
    "geometric agreement: 1e-40 at 60 digits, 1e-9 for float64 objects on well-conditioned operands, 1e-11 NumPy/Awkward versus the float64 object backend",
    "bit-for-bit clauses (same system => unchanged stored coordinates; projections / embeddings keep stored coordinates; keyword values land unchanged in the coordinate type the keyword names; missing coordinates are exact zeros typed z / t) are checked with exact equality",
    "round trips are decided only for operands representable in both systems (off the z axis for theta/eta, t >= 0 for tau)",
]
CAP_S = {"quick": 1200, "thorough": 5400}

GEN = {"x": "x", "y": "y", "rho": "rho", "phi": "phi", "z": "z", "theta": "theta", "eta": "eta", "t": "t", "tau": "tau"}
MOM = {"x": "px", "y": "py", "rho": "pt", "phi": "phi", "z": "pz", "theta": "theta", "eta": "eta", "t": "energy", "tau": "mass"}


def targets():
    """(method name, target system, {coordinate: keyword name}) for all 40 to_* methods."""
    out = []
    for dim in (2, 3, 4):
        for system in L.SYSTEMS[dim]:
            fields = L.field_names(system)
            for table in (GEN, MOM):
                name = "to_" + "".join(table[f] for f in fields)
                kw = {f: table[f] for f in fields[2:]}
                out.append((name, system, kw))
    return out


TARGETS = targets()


def bounds(tier):
    return {"tier": tier, "source_systems": 20, "to_targets": len(TARGETS), "backends": ["MP (60 digits)", "OBJ float64", "NP", "AKA"], "flavors": 2,
            "keywords": "none / each single keyword / both, scalar and array-valued; value variants pos / 0.0 / -0.0 / 0 / sign-flipped", "array_dtypes": ["float64", "int64", "int32", "float32 (keyword imputation only)"], "dimension_changes": ["to_Vector2D/3D/4D", "to_2D/3D/4D", "like(2D/3D/4D other)"]}


def shards(tier):
    out = []
    for dim in (2, 3, 4):
        for s in L.SYSTEMS[dim]:
            for backend in ("MP", "OBJ", "NP", "AKA"):
                out.append({"dim": dim, "sys": list(s), "backend": backend})
    return out


def _vectors(dim, tier):
    vs = A.vectors(dim, tier)
    if tier != "thorough":
        vs = A.representatives(vs, (len(vs) + 2) // 3)
    return vs


KW_L = {"z": 0.8125, "theta": 2.125, "eta": -0.6875}
KW_T = {"t": 7.25, "tau": 1.375}
# value variants of an imputed keyword: the property says "exactly the coordinate passed by keyword", so zero (float, negative
# float zero, int) and sign-flipped values are strata of their own (a truthiness test instead of `is not None` only shows at 0)
KW_VARIANTS = ("pos", "zero", "negzero", "intzero", "neg")
KW_ALT = {"z": -3.0625, "theta": 0.375, "eta": 1.4375, "t": -9.125, "tau": -2.625}


def kw_value(f, variant, base=None):
    """value of keyword coordinate f (a geometric name z/theta/eta/t/tau) under a variant"""
    if variant == "pos":
        return base if base is not None else (KW_L[f] if f in KW_L else KW_T[f])
    if variant == "zero":
        return 0.0
    if variant == "negzero":
        return -0.0
    if variant == "intzero":
        return 0
    return KW_ALT[f]


def same_value(got, want):
    """equal, and a zero keeps its sign (the value is to be stored unchanged)"""
    if not (got == want):
        return False
    try:
        if float(want) == 0.0 and not isinstance(want, mpf) and not isinstance(got, mpf):
            return math.copysign(1.0, float(got)) == math.copysign(1.0, float(want))
    except (TypeError, ValueError):
        pass
    return True


def _is_mom(r):
    return isinstance(r, vector.Momentum)


# ------------------------------------------------------------------------ object backends (MP / float64)
def check_object(res: Result, v: Vec, ssys, flavor, layer, tier, only=None):
    dim = v.dim
    st = S.stored(v, ssys)
    if st is None:
        res.count("operand_not_representable")
        return
    if layer == "L1":
        obj = S.build_mp(v, ssys, flavor)
        tol, conv = mpf(10) ** -40, (lambda x: x if isinstance(x, mpf) else mpf(x))
    else:
        obj, fst = S.build_float(v, ssys, flavor)
        st = tuple(mpf(x) for x in fst)
        tol, conv = mpf(10) ** -9, (lambda x: mpf(float(x)))
        if v.has("near_axis") or v.has("fast"):
            tol = None  # ill-conditioned in float64: structural clauses only
    in_sys, in_st = L.system_of(obj)
    g = G.from_stored(ssys, st)
    scale = mpf(max(1.0, max(abs(c) for c in v.comps)) ** 2 * 4)
    base = {"v": list(v.comps), "sys": list(ssys), "flavor": flavor, "layer": layer}

    def viol(clause, call, msg, extra=None):
        res.violation(f"{clause}|{call}|{L.sysname(ssys)}|{layer}", msg, dict(base, call=call, **(extra or {})))

    def done(ok=True):
        res.traces += 1
        res.evaluations += 1
        if ok:
            res.nontrivial += 1

    for name, tsys, kwmap in TARGETS:
        if only is not None and only != name:
            continue
        tdim = len(tsys) + 1
        # keyword choices for the coordinates the source lacks
        missing = [f for f in L.field_names(tsys)[2:] if (f in ("z", "theta", "eta") and dim < 3) or (f in ("t", "tau") and dim < 4)]
        choices = [()]
        if missing:
            choices += [(f,) for f in missing]
            if len(missing) == 2:
                choices.append(tuple(missing))
        for given, variant in [(g_, v_) for g_ in choices for v_ in (KW_VARIANTS if g_ else ("pos",)) if not (layer == "L1" and v_ in ("negzero", "intzero"))]:
            res.states += 1
            res.transitions += 1
            kwargs = {}
            for f in given:
                val = kw_value(f, variant)
                kwargs[kwmap[f]] = mpf(val) if layer == "L1" else val
            call = name + ("(" + ",".join(kwmap[f] for f in given) + (")" if variant == "pos" else f";{variant})") if given else "")
            try:
                r = getattr(obj, name)(**kwargs)
            except Exception as e:  # noqa: BLE001
                viol("raises", call, f"{call} raised {type(e).__name__}: {e}")
                continue
            rsys, rst = L.system_of(r)
            # (i) system and flavor
            if rsys != tsys or _is_mom(r) != (flavor == "momentum"):
                viol("system_flavor", call, f"{call} returned {type(r).__name__} in {rsys}, expected {'momentum' if flavor == 'momentum' else 'generic'} {tsys}")
                continue
            # (ii) unchanged stored coordinates when the system does not change
            if tsys == ssys and not all(p is q or (type(p) is type(q) and p == q) for p, q in zip(rst, in_st)):
                viol("same_system_identity", call, f"{call} on a vector already stored as {L.sysname(ssys)} changed the stored coordinates {in_st} -> {rst}")
                continue
            # (vi) imputed coordinates: the keyword's value, or exact zero
            fields = L.field_names(tsys)
            bad = False
            for f in missing:
                got = rst[fields.index(f)]
                want = kwargs[kwmap[f]] if f in given else 0
                if not same_value(got, want):
                    viol("imputed_value", call, f"{call}: coordinate {f} = {got!r}, expected {want!r}")
                    bad = True
            if bad:
                continue
            # geometric value of the part that is converted
            if g is None or tol is None:
                done()
                continue
            keep = min(dim, tdim)
            exp = list(g[:keep])
            rc = None
            sub = tsys[: (1 if keep == 2 else 2 if keep == 3 else 3)]
            sub_st = tuple(conv(x) for x in rst[: keep])
            # read the converted part back in its own sub-system; imputed coordinates were checked above
            if keep == tdim or not missing:
                rc = G.from_stored(sub, sub_st)
            else:
                rc = G.from_stored(sub, sub_st)
            if not _repr_ok(exp, sub, scale):
                res.count("result_not_representable")
                done(False)
                continue
            if rc is None or not S.vec_close(rc, tuple(exp), scale, tol):
                viol("value", call, f"{call}: converted part {rc and [mpmath.nstr(c, 18) for c in rc]} != {[mpmath.nstr(c, 18) for c in exp]}")
                continue
            # (iii) round trip back to the source system (same dimension only)
            if tdim == dim:
                back_name = "to_" + "".join(L.field_names(ssys))
                res.transitions += 1
                back = getattr(r, back_name)()
                bsys, bst = L.system_of(back)
                bc = G.from_stored(bsys, tuple(conv(x) for x in bst))
                if bsys != ssys or bc is None or not S.vec_close(bc, g, scale, tol):
                    viol("round_trip", call, f"{call}.{back_name}() = {bc and [mpmath.nstr(c, 18) for c in bc]} but started from {[mpmath.nstr(c, 18) for c in g]}")
                    continue
            done()
    if only is None or only.startswith("dimchange"):
        check_dimchange_object(res, obj, v, ssys, flavor, layer, viol, done)


def _repr_ok(c, system, scale):
    m = mpf(10) ** -6 * scale
    if len(system) > 1 and system[1] in ("theta", "eta") and G.hyp(c[0], c[1]) < m:
        return False
    if len(system) > 2 and system[2] == "tau" and c[3] < m:
        return False
    return True


L_SPELL = {"z": "z", "pz": "z", "theta": "theta", "eta": "eta"}
T_SPELL = {"t": "t", "e": "t", "E": "t", "energy": "t", "tau": "tau", "m": "tau", "M": "tau", "mass": "tau"}


def dim_calls(dim):
    """(label, method, kwargs names, target dim) for every dimension-changing call of a dim-D vector."""
    out = []
    for tdim in (2, 3, 4):
        for meth in (f"to_Vector{tdim}D", f"to_{tdim}D"):
            if tdim <= dim:
                out.append((meth, meth, (), tdim))
            else:
                lkeys = [None] + list(L_SPELL) if dim < 3 else [None]
                tkeys = [None] + list(T_SPELL) if tdim == 4 else [None]
                for lk in lkeys:
                    for tk in tkeys:
                        kws = tuple(k for k in (lk, tk) if k is not None)
                        out.append((meth + "(" + ",".join(kws) + ")", meth, kws, tdim))
    return out


def check_dimchange_object(res, obj, v, ssys, flavor, layer, viol, done):
    dim = v.dim
    in_sys, in_st = L.system_of(obj)
    val = (lambda x: mpf(x)) if layer == "L1" else (lambda x: x)
    others = {2: vector.obj(x=1.0, y=2.0), 3: vector.obj(x=1.0, y=2.0, eta=0.5), 4: vector.obj(rho=1.0, phi=2.0, z=0.5, tau=3.0)}
    calls = dim_calls(dim) + [(f"like({d}D)", "like", (), d) for d in (2, 3, 4)]
    calls = [(lab if var == "pos" else lab[:-1] + f";{var})", meth, kws, tdim, var) for lab, meth, kws, tdim in calls for var in (KW_VARIANTS if kws else ("pos",))
             if not (layer == "L1" and var in ("negzero", "intzero"))]
    for label, meth, kws, tdim, variant in calls:
        res.states += 1
        res.transitions += 1
        kwargs = {}
        for k in kws:
            kv = kw_value(L_SPELL[k] if k in L_SPELL else T_SPELL[k], variant, base=3.0625 if k in L_SPELL else 9.125)
            kwargs[k] = val(kv) if not isinstance(kv, int) else kv
        try:
            if meth == "like":
                r = obj.like(others[tdim])
            else:
                r = getattr(obj, meth)(**kwargs)
        except Exception as e:  # noqa: BLE001
            viol("raises", "dimchange:" + label, f"{label} raised {type(e).__name__}: {e}")
            continue
        rsys, rst = L.system_of(r)
        if len(rsys) + 1 != tdim or _is_mom(r) != (flavor == "momentum"):
            viol("system_flavor", "dimchange:" + label, f"{label} returned {type(r).__name__} {rsys}")
            continue
        keep = min(dim, tdim)
        # retained stored coordinates bit-for-bit, in the same coordinate types
        nkeep_groups = keep - 1
        if rsys[:nkeep_groups] != in_sys[:nkeep_groups] or not all(p is q or (type(p) is type(q) and p == q) for p, q in zip(rst[:keep], in_st[:keep])):
            viol("stored_passthrough", "dimchange:" + label, f"{label}: stored coordinates {in_sys}{in_st} -> {rsys}{rst}")
            continue
        ok = True
        if tdim > dim:
            if dim < 3:
                lk = next((k for k in kws if k in L_SPELL), None)
                want_sys, want_val = (L_SPELL[lk], kwargs[lk]) if lk else ("z", 0)
                if rsys[1] != want_sys or not same_value(rst[2], want_val):
                    viol("embedding_value", "dimchange:" + label, f"{label}: longitudinal {rsys[1]} = {rst[2]!r}, expected {want_sys} = {want_val!r}")
                    ok = False
            if tdim == 4 and ok:
                tk = next((k for k in kws if k in T_SPELL), None)
                want_sys, want_val = (T_SPELL[tk], kwargs[tk]) if tk else ("t", 0)
                if rsys[2] != want_sys or not same_value(rst[3], want_val):
                    viol("embedding_value", "dimchange:" + label, f"{label}: temporal {rsys[2]} = {rst[3]!r}, expected {want_sys} = {want_val!r}")
                    ok = False
        if ok:
            done()
    # conflicting keywords must be rejected
    if dim < 4:
        res.states += 1
        res.transitions += 1
        try:
            obj.to_Vector4D(t=val(1.0), mass=val(2.0))
        except TypeError:
            done()
        except Exception as e:  # noqa: BLE001
            viol("raises", "dimchange:conflict", f"to_Vector4D(t=, mass=) raised {type(e).__name__}")
        else:
            viol("conflict_accepted", "dimchange:conflict", "to_Vector4D(t=, mass=) did not raise TypeError")


# ------------------------------------------------------------------------ array backends
def check_arrays(res: Result, dim, ssys, backend, tier, only=None, shape2d=False):
    vs = [v for v in _vectors(dim, tier) if not v.has("near_axis") and not v.has("fast")]
    rows, objs_ok = [], []
    for v in vs:
        s = S.stored(v, ssys)
        if s is not None:
            rows.append(tuple(float(x) for x in s))
    if not rows:
        return
    if shape2d:
        rows = rows[: len(rows) // 2 * 2]
        if len(rows) < 4:
            return
    n = len(rows)
    for flavor in ("generic", "momentum"):
        if backend == "NP" and shape2d:
            arr = B.make_np(ssys, flavor, rows).reshape(2, n // 2)  # a 2-D array of vectors: results keep the shape, element by element
        elif backend == "NP":
            arr = B.make_np(ssys, flavor, rows)
        else:
            arr = B.make_ak(ssys, flavor, rows, "jagged")
        objs = [B.make_obj(ssys, flavor, r) for r in rows]
        in_rows = B.result_rows(arr)
        base = {"sys": list(ssys), "flavor": flavor, "backend": backend, "rows": n, "shape2d": shape2d}

        def viol(clause, call, msg):
            res.violation(f"{clause}|{call}|{L.sysname(ssys)}|{backend}" + ("|2-D" if shape2d else ""), msg, dict(base, call=call))

        def kwval(f, arrayform, variant="pos", base=None):
            val = kw_value(f, variant, base)
            if not arrayform:
                return val, [val] * n
            # array-valued keyword: element 0 carries the variant's value (a zero among non-zeros), the others are distinct
            vals = [val] + [(base if base is not None else (KW_L[f] if f in KW_L else KW_T[f])) + 0.125 * i for i in range(1, n)]
            vals = [float(x) for x in vals]
            if backend == "NP":
                return (np.array(vals).reshape(2, n // 2) if shape2d else np.array(vals)), vals
            return ak.unflatten(ak.Array(vals), ak.num(arr, axis=1)) if arr.layout.purelist_depth > 1 else ak.Array(vals), vals

        for name, tsys, kwmap in TARGETS:
            if only is not None and only != name:
                continue
            tdim = len(tsys) + 1
            missing = [f for f in L.field_names(tsys)[2:] if (f in ("z", "theta", "eta") and dim < 3) or (f in ("t", "tau") and dim < 4)]
            choices = [((), False)]
            if missing:
                choices += [((f,), False) for f in missing] + [((missing[0],), True)]
                if len(missing) == 2:
                    choices.append((tuple(missing), False))
                    choices.append((tuple(missing), True))
            for given, arrayform, variant in [(g_, a_, v_) for g_, a_ in choices for v_ in (KW_VARIANTS if g_ else ("pos",))]:
                res.states += 1
                res.transitions += 1 + n
                kwargs, okw, expect_kw = {}, [dict() for _ in range(n)], {}
                for f in given:
                    kv, per = kwval(f, arrayform, variant)
                    kwargs[kwmap[f]] = kv
                    expect_kw[f] = per
                    for i in range(n):
                        okw[i][kwmap[f]] = per[i]
                call = name + ("(" + ",".join(kwmap[f] for f in given) + (";array" if arrayform else "") + ("" if variant == "pos" else ";" + variant) + ")" if given else "")
                try:
                    r = getattr(arr, name)(**kwargs)
                    kind, rsys, rflavor, rrows, struct = B.result_rows(r)
                except Exception as e:  # noqa: BLE001
                    viol("raises", call, f"{call} raised {type(e).__name__}: {str(e)[:160]}")
                    continue
                if rsys != tsys or rflavor != flavor:
                    viol("system_flavor", call, f"{call} returned {type(r).__name__} in {rsys}/{rflavor}, expected {tsys}/{flavor}")
                    continue
                if struct != in_rows[4] or len(rrows) != n:
                    viol("structure", call, f"{call} changed the array structure {in_rows[4]} -> {struct}")
                    continue
                if tsys == ssys and rrows != in_rows[3]:
                    viol("same_system_identity", call, f"{call} on an array already stored as {L.sysname(ssys)} changed the stored coordinates")
                    continue
                fields = L.field_names(tsys)
                bad = None
                for i in range(n):
                    ro = getattr(objs[i], name)(**okw[i])
                    _, ost = L.system_of(ro)
                    for j, f in enumerate(fields):
                        a, b = rrows[i][j], float(ost[j])
                        if f in missing:
                            want = expect_kw[f][i] if f in given else 0.0
                            if not same_value(a, want):
                                bad = f"element {i}: imputed {f} = {a!r}, expected {want!r}"
                        elif not (a == b or abs(a - b) <= 1e-11 * max(1.0, abs(a), abs(b)) or (a != a and b != b)):
                            bad = f"element {i}: {f} = {a!r} but the object backend gives {b!r}"
                    if bad:
                        break
                if bad:
                    viol("value", call, f"{call}: {bad}")
                    continue
                res.traces += 1
                res.evaluations += 1
                res.nontrivial += 1
        if only is None or only.startswith("dimchange"):
            dcalls = [(lab if (var, af) == ("pos", False) else lab[:-1] + (";array" if af else "") + ("" if var == "pos" else ";" + var) + ")", meth, kws, tdim, var, af)
                      for lab, meth, kws, tdim in dim_calls(dim) + [(f"like({d}D)", "like", (), d) for d in (2, 3, 4)]
                      for var in (KW_VARIANTS if kws else ("pos",)) for af in ((False, True) if kws else (False,))]
            for label, meth, kws, tdim, variant, af in dcalls:
                res.states += 1
                res.transitions += 1
                kwargs, per_el = {}, {}
                for k in kws:
                    kv, per = kwval(L_SPELL[k] if k in L_SPELL else T_SPELL[k], af, variant, base=3.0625 if k in L_SPELL else 9.125)
                    kwargs[k], per_el[k] = kv, per
                try:
                    if meth == "like":
                        other = {2: vector.obj(x=1.0, y=2.0), 3: vector.obj(x=1.0, y=2.0, eta=0.5), 4: vector.obj(rho=1.0, phi=2.0, z=0.5, tau=3.0)}[tdim]
                        r = arr.like(other)
                    else:
                        r = getattr(arr, meth)(**kwargs)
                    kind, rsys, rflavor, rrows, struct = B.result_rows(r)
                except Exception as e:  # noqa: BLE001
                    viol("raises", "dimchange:" + label, f"{label} raised {type(e).__name__}: {str(e)[:160]}")
                    continue
                keep = min(dim, tdim)
                if len(rsys) + 1 != tdim or rflavor != flavor or struct != in_rows[4]:
                    viol("system_flavor", "dimchange:" + label, f"{label} returned {type(r).__name__} {rsys}/{rflavor}, structure {struct}")
                    continue
                if rsys[: keep - 1] != tuple(ssys)[: keep - 1] or any(a[:keep] != b[:keep] for a, b in zip(rrows, in_rows[3])):
                    viol("stored_passthrough", "dimchange:" + label, f"{label}: retained stored coordinates changed ({ssys} -> {rsys})")
                    continue
                ok = True
                if tdim > dim:
                    if dim < 3:
                        lk = next((k for k in kws if k in L_SPELL), None)
                        ws, wv = (L_SPELL[lk], per_el[lk]) if lk else ("z", [0.0] * n)
                        if rsys[1] != ws or any(not same_value(a[2], w) for a, w in zip(rrows, wv)):
                            viol("embedding_value", "dimchange:" + label, f"{label}: longitudinal {rsys[1]} = {[a[2] for a in rrows]!r}, expected {ws} = {wv!r}")
                            ok = False
                    if tdim == 4 and ok:
                        tk = next((k for k in kws if k in T_SPELL), None)
                        ws, wv = (T_SPELL[tk], per_el[tk]) if tk else ("t", [0.0] * n)
                        if rsys[2] != ws or any(not same_value(a[3], w) for a, w in zip(rrows, wv)):
                            viol("embedding_value", "dimchange:" + label, f"{label}: temporal {rsys[2]} = {[a[3] for a in rrows]!r}, expected {ws} = {wv!r}")
                            ok = False
                if ok:
                    res.traces += 1
                    res.evaluations += 1
                    res.nontrivial += 1


def check_arrays_dtype(res: Result, dim, ssys, backend):
    """arrays whose coordinate fields are typed int64 / int32 / float32 (small integers): retained stored coordinates stay
    bit-for-bit *and typed*, and an imputed keyword value is added exactly (0.5 stays 0.5, 0.1 stays the float64 0.1)"""
    from .C03 import _int_rows

    names = L.field_names(ssys)
    rows = _int_rows(ssys, "a")
    n = len(rows)
    for dtname, npdt in (("int64", np.int64), ("int32", np.int32), ("float32", np.float32)):
        for flavor in ("generic", "momentum"):
            fnames = L.field_names(ssys, flavor)
            if backend == "NP":
                arr = vector.array({fn: np.array([r[i] for r in rows], dtype=npdt) for i, fn in enumerate(fnames)})
            else:
                arr = vector.Array(ak.values_astype(ak.Array([dict(zip(fnames, r)) for r in rows]), npdt))
            base = {"sys": list(ssys), "flavor": flavor, "backend": backend, "dtype": dtname}
            calls = []
            for label, meth, kws, tdim in dim_calls(dim):
                if tdim > dim:
                    for variant, vals in (("half", {"l": 0.5, "t": 2.25}), ("tenth", {"l": -1.25, "t": 0.1})):
                        calls.append((label[:-1] + ";" + variant + ")" if kws else label, meth, {k: (vals["l"] if k in L_SPELL else vals["t"]) for k in kws}, tdim))
            for name, tsys, kwmap in TARGETS:
                tdim = len(tsys) + 1
                missing = [f for f in L.field_names(tsys)[2:] if (f in ("z", "theta", "eta") and dim < 3) or (f in ("t", "tau") and dim < 4)]
                if missing and tsys[: len(ssys)] == tuple(ssys):
                    calls.append((name + "(" + ",".join(kwmap[f] for f in missing) + ";half)", name, {kwmap[f]: (0.5 if f in ("z", "theta", "eta") else 2.25) for f in missing}, tdim))
            for label, meth, kwargs, tdim in calls:
                res.states += 1
                res.transitions += 1
                res.traces += 1
                res.evaluations += 1
                cls = f"dtype_{dtname}|{label}|{L.sysname(ssys)}|{backend}"
                case = dict(base, call=label)
                try:
                    r = getattr(arr, meth)(**kwargs)
                    kind, rsys, rflavor, rrows, struct = B.result_rows(r)
                except Exception as e:  # noqa: BLE001
                    res.violation(cls + "|raises", f"{label} on a {dtname}-typed array raised {type(e).__name__}: {str(e)[:160]}", case)
                    continue
                rfields = L.field_names(rsys)
                bad = None
                for k, v_ in kwargs.items():
                    g = L_SPELL.get(k) or T_SPELL.get(k) or GEN_OF.get(k, k)
                    if g not in rfields:
                        bad = f"keyword {k} names coordinate {g}, the result is stored as {rsys}"
                        break
                    j = rfields.index(g)
                    if any(float(row[j]) != float(v_) for row in rrows):
                        bad = f"imputed {g} = {[row[j] for row in rrows]!r}, expected exactly {v_!r}"
                        break
                if bad is None and rsys[: len(ssys)] == tuple(ssys):
                    for i, row in enumerate(rrows):
                        if tuple(float(x) for x in row[: len(names)]) != tuple(float(x) for x in rows[i][: len(names)]):
                            bad = f"retained stored coordinates of element {i} changed: {rows[i]} -> {row[: len(names)]}"
                            break
                if bad:
                    res.violation(cls, f"{label} on a {dtname}-typed {backend} array: {bad}", case)
                else:
                    res.nontrivial += 1


GEN_OF = {"pz": "z", "e": "t", "E": "t", "energy": "t", "m": "tau", "M": "tau", "mass": "tau"}


def run_shard(shard, tier):
    res = Result()
    dim, ssys, backend = shard["dim"], tuple(shard["sys"]), shard["backend"]
    if backend in ("MP", "OBJ"):
        layer = "L1" if backend == "MP" else "L2"
        vs = _vectors(dim, tier)
        for v in vs:
            for flavor in ("generic", "momentum"):
                check_object(res, v, ssys, flavor, layer, tier)
        res.sample({"backend": backend, "sys": list(ssys), "vectors": len(vs), "calls_per_vector": len(TARGETS), "example": list(vs[0].comps)})
    else:
        check_arrays(res, dim, ssys, backend, tier)
        if backend == "NP":
            check_arrays(res, dim, ssys, backend, tier, shape2d=True)
        if dim < 4:
            check_arrays_dtype(res, dim, ssys, backend)
    return res


def replay(case):
    res = Result()
    call = case.get("call", "")
    only = call.split("(")[0] if call and not call.startswith("dimchange") else ("dimchange" if call else None)
    if "dtype" in case:
        check_arrays_dtype(res, len(case["sys"]) + 1, tuple(case["sys"]), case["backend"])
        return res
    if "backend" in case:
        check_arrays(res, len(case["sys"]) + 1, tuple(case["sys"]), case["backend"], "thorough", only=only, shape2d=bool(case.get("shape2d")))
    else:
        v = Vec("v", case["v"], set())
        check_object(res, v, tuple(case["sys"]), case["flavor"], case["layer"], "thorough", only=only)
    return res
