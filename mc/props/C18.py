"""C18 — Awkward arrays keep structure and extra fields through vector operations.

Exhaustive over a layout grammar to depth 3 (var / regular lists, option at list or record
level, empty arrays) x 0-2 extra fields x every catalogued operation (one-array, and
two-operand with an Awkward array of the same layout, a single object, a record) x
signatures x flavors x registration mode (vector.register_awkward() called or not; each
shard runs in a fresh forked process because registration is irreversible).
"""

from __future__ import annotations

import itertools
import math

import numpy as np

from .. import alphabet as A
from .. import build as B
from .. import lattice as L
from .. import sweep as S
from ..catalogue import BY_KEY, OPS
from ..result import Result
from . import C03
from .C04 import TARGETS, dim_calls

import awkward as ak  # noqa: E402
import vector  # noqa: E402

ID = "C18"
MAXTASKS = 1  # one shard per worker process: register_awkward() must not leak between shards
RULE = (
    "cases = registration mode x operation x signature x flavor x layout x extra-field set x second-operand kind; for every case the result's list structure "
    "(ak.num at every axis, depth, regular-vs-variable kind), missing positions and extra fields are compared with the operand's; plus record selection: every "
    "catalogued property / method of array[i, j] against the equivalent object; non-trivial = a layout other than flat-without-extras; distinct = distinct cases"
)
ASSUMPTIONS = [
    "a position holds a *missing vector* when the record is None or all its coordinates are None (Awkward's zip pushes record-level options into the fields; the property speaks of positions)",
    "one-vector operations must return every non-coordinate field with identical values; two-vector operations must return coordinates only",
    "record behaviour: every catalogued unary property / method and binary method with an object partner on array[i, j] equals the object backend to 1e-11, and vector-valued results allow a further property read",
]
CAP_S = {"quick": 2400, "thorough": 10800}
LAYOUTS = ("flat", "jagged", "nested3", "optlist", "optrec", "regular", "regvar", "empty")
EXTRAS = ((), ("charge",), ("charge", "tag"), ("label", "hits"), ("beta", "mt", "p"), ("qopt",))  # extra fields named like vector properties; an option-typed extra field (missing where the vector is present)
COORDS = {"x", "y", "rho", "phi", "z", "theta", "eta", "t", "tau"}


def bounds(tier):
    return {"tier": tier, "layouts": LAYOUTS, "extra_field_sets": [list(e) for e in EXTRAS], "modes": ["unregistered", "registered"], "operations": len(OPS),
            "signatures": "unary: all; binary: diagonal+cross" if tier == "quick" else "all", "second_operands": ["Awkward array (same layout)", "object", "record"]}


def shards(tier):
    out = []
    for mode in ("unregistered", "registered"):
        for op in OPS:
            for dimA in op.dims:
                for dimB in S.second_dims(op, dimA):
                    out.append({"mode": mode, "op": op.key, "dimA": dimA, "dimB": dimB})
        for dim in (2, 3, 4):
            out.append({"mode": mode, "op": "__records__", "dimA": dim, "dimB": None})
            out.append({"mode": mode, "op": "__mixed_depth__", "dimA": dim, "dimB": None})
            for s_ in L.SYSTEMS[dim]:
                out.append({"mode": mode, "op": "__conversions__", "dimA": dim, "dimB": None, "sys": list(s_)})
    return out


def build(system, flavor, rows, layout, extras):
    names = L.field_names(system, flavor)
    if "label" in extras:
        # non-numeric and nested extra fields: only vector.zip accepts them (vector.Array type-checks every field)
        cols = {n: ak.Array(B._nest([r[i] for r in rows], layout)) for i, n in enumerate(names)}
        cols["label"] = ak.Array(B._nest([f"p{i}" for i in range(len(rows))], layout))
        cols["hits"] = ak.Array(B._nest([list(range(i % 3)) for i in range(len(rows))], layout))
        depth = cols[names[0]].layout.purelist_depth
        return vector.zip(cols, depth_limit=depth)
    recs = []
    for i, r in enumerate(rows):
        d = dict(zip(names, r))
        if "charge" in extras:
            d["charge"] = (-1) ** i * (i + 1)
        if "tag" in extras:
            d["tag"] = 0.5 * i
        for e in extras:
            if e == "qopt":
                d[e] = None if i % 2 else 7 + i
            elif e not in ("charge", "tag"):
                d[e] = 100.0 + 3 * i + len(e)
        recs.append(d)
    if layout == "regular":
        n = len(recs) // 2 * 2
        return vector.Array(ak.to_regular(ak.Array([recs[: n // 2], recs[n // 2 : n]]), axis=1))
    if layout == "regvar":
        n = len(recs)
        inner = [recs[0:2], [], recs[2:3], recs[3:n]]
        return vector.Array(ak.to_regular(ak.Array([inner[:2], inner[2:]]), axis=1))
    if layout == "empty":
        return vector.Array(ak.Array(recs[:1])[:0])
    return vector.Array(ak.Array(B._nest(recs, layout)))


def list_kinds(arr):
    """sequence of list kinds ('var' / 'regular') from the outside in, ignoring option nodes"""
    out = []
    lay = arr.layout
    while True:
        if lay.is_option or lay.is_indexed:
            lay = lay.content
        elif lay.is_list:
            out.append("regular" if lay.is_regular else "var")
            lay = lay.content
        else:
            return out


def nums(arr):
    out = []
    for axis in range(arr.layout.purelist_depth):
        try:
            out.append(ak.to_list(ak.num(arr, axis=axis)))
        except Exception:  # noqa: BLE001
            out.append("n/a")
    return out


def missing_mask(lst, fields=None):
    """nested list structure with True where the position holds a missing vector / value"""
    if isinstance(lst, list):
        return [missing_mask(x, fields) for x in lst]
    if lst is None:
        return True
    if isinstance(lst, dict):
        cs = [v for k, v in lst.items() if k in COORDS]
        return bool(cs) and all(v is None for v in cs)
    return False


def lists_only(mask):
    """replace a missing *list* (True where a list is expected) - keep structure comparable"""
    return mask


def check_result(res, op, arr, r, case, cls, extras, n_vec):
    res.traces += 1
    lst_in = ak.to_list(arr)
    if isinstance(r, ak.Array):
        lst_out = ak.to_list(r)
    else:
        res.violation(f"not_an_array|{cls}", f"{op.key} on an Awkward array returned {type(r).__name__}", case)
        return False
    m_in, m_out = missing_mask(lst_in), missing_mask(lst_out)
    if m_in != m_out:
        res.violation(f"missing_positions|{cls}", f"{op.key}: missing / list structure {m_out} differs from the operand's {m_in}", case)
        return False
    if list_kinds(r) != list_kinds(arr):
        res.violation(f"list_kind|{cls}", f"{op.key}: list kinds {list_kinds(r)} differ from the operand's {list_kinds(arr)} (type {ak.type(r)} vs {ak.type(arr)})", case)
        return False
    if nums(r) != nums(arr):
        res.violation(f"num|{cls}", f"{op.key}: ak.num per axis {nums(r)} differs from the operand's {nums(arr)}", case)
        return False
    if op.ret == "vec":
        fields = set(ak.fields(r))
        extra_out = fields - COORDS
        want = set(extras) if n_vec == 1 else set()
        if extra_out != want:
            res.violation(f"extra_fields|{cls}", f"{op.key}: non-coordinate fields of the result {sorted(extra_out)}, expected {sorted(want)}", case)
            return False
        for e in want:
            if ak.to_list(r[e]) != ak.to_list(arr[e]):
                res.violation(f"extra_values|{cls}", f"{op.key}: extra field {e} changed: {ak.to_list(r[e])} vs {ak.to_list(arr[e])}", case)
                return False
        if not isinstance(r, vector.backends.awkward.VectorAwkward):
            res.violation(f"no_behavior|{cls}", f"{op.key}: result {type(r).__name__} has no vector behavior", case)
            return False
    return True


def run_op(res: Result, op, dimA, dimB, tier, mode):
    s = C03.scalars_for(op)
    sigs = S.signatures(op, dimA, dimB, "all" if (dimB is None or tier == "thorough") else "diag")
    flavors = ["momentum"] if op.momentum_only else ["generic", "momentum"]
    for k, (sa, sb) in enumerate(sigs):
        rows_a, rows_b = C03.operand_rows(op, dimA, dimB, sa, sb, tier)
        if len(rows_a) < 6:
            res.count("signatures_skipped_too_few_representable_operands")
            continue
        rows_a = rows_a[:6]
        rows_b = rows_b[:6] if rows_b else None
        fa = flavors[k % len(flavors)]
        for layout in LAYOUTS:
            for extras in EXTRAS:
                if extras == ("charge", "tag") and layout not in ("jagged", "optrec"):
                    continue
                if extras == ("label", "hits") and layout not in ("jagged", "nested3"):
                    continue
                if extras == ("beta", "mt", "p") and layout not in ("jagged", "optrec"):
                    continue
                if extras == ("qopt",) and layout not in ("flat", "jagged"):
                    continue
                arr = build(sa, fa, rows_a, layout, extras)
                seconds = [None]
                if dimB is not None:
                    fb = "momentum" if fa == "generic" else "generic"
                    seconds = [("AKA", build(sb, fb, rows_b, layout, extras)), ("OBJ", B.make_obj(sb, fb, rows_b[0])), ("AKR", B.make_akr(sb, fb, rows_b[0]))]
                for sec in seconds:
                    res.states += 1
                    res.evaluations += 1
                    res.transitions += 1
                    kind = sec[0] if sec else None
                    case = {"mode": mode, "op": op.key, "sysA": list(sa), "sysB": list(sb) if sb else None, "flavor": fa, "layout": layout, "extras": list(extras), "second": kind}
                    cls = f"{op.key}|{layout}|{'+'.join(extras) or 'noextra'}" + (f"|{kind}" if kind else "") + f"|{mode}"
                    try:
                        r = op.call(arr, [sec[1]] if sec else [], s)
                    except Exception as e:  # noqa: BLE001
                        res.traces += 1
                        res.violation(f"raises|{cls}|{C03._tclass(sa, sb)}|{type(e).__name__}", f"{op.key} raised {type(e).__name__}: {str(e).strip()[:160]}", case)
                        continue
                    # add / subtract / cross combine two vectors on an equal footing (num_vecargs = 2 in their dispatch);
                    # rotations about an axis and boosts transform *one* vector, the axis / booster being a parameter
                    n_vec = 2 if (sec is not None and op.name in ("add", "subtract", "cross")) else 1
                    if check_result(res, op, arr, r, case, cls, extras, n_vec):
                        if not (layout == "flat" and not extras):
                            res.nontrivial += 1
    res.sample({"mode": mode, "op": op.key, "dimA": dimA, "dimB": dimB, "signatures": len(sigs), "layouts": list(LAYOUTS)})


class _Conv:
    """shim with the attributes check_result needs"""

    ret = "vec"

    def __init__(self, key):
        self.key = key


def run_conversions(res: Result, dim, system, tier, mode):
    """the 40 to_* conversions (with and without imputation keywords), to_VectorND / to_ND and like() on every layout"""
    vs = [v for v in A.vectors(dim, tier) if C03._well(v)]
    rows = [tuple(float(x) for x in S.stored(v, system)) for v in vs if S.stored(v, system) is not None][:6]
    if len(rows) < 6:
        return
    others = {2: vector.obj(x=1.0, y=2.0), 3: vector.obj(x=1.0, y=2.0, eta=0.5), 4: vector.obj(rho=1.0, phi=2.0, z=0.5, tau=3.0)}
    for k, flavor in enumerate(("generic", "momentum")):
        for layout in LAYOUTS:
            for extras in ((), ("charge",)):
                arr = build(system, flavor, rows, layout, extras)
                calls = []
                for name, tsys, kwmap in TARGETS:
                    tdim = len(tsys) + 1
                    missing = [f for f in L.field_names(tsys)[2:] if (f in ("z", "theta", "eta") and dim < 3) or (f in ("t", "tau") and dim < 4)]
                    calls.append((name, name, {}))
                    if missing:
                        calls.append((name + "(kw)", name, {kwmap[f]: 0.8125 for f in missing}))
                for label, meth, kws, tdim in dim_calls(dim):
                    if len(kws) <= 1 or kws in (("z", "t"), ("eta", "mass"), ("theta", "tau")):
                        calls.append((label, meth, {kw: 1.5 for kw in kws}))
                for d in (2, 3, 4):
                    calls.append((f"like({d}D)", "like", {"__other__": others[d]}))
                for label, meth, kwargs in calls:
                    res.states += 1
                    res.evaluations += 1
                    res.transitions += 1
                    case = {"mode": mode, "op": "__conversions__", "sys": list(system), "flavor": flavor, "layout": layout, "extras": list(extras), "call": label}
                    cls = f"{label}|{layout}|{'+'.join(extras) or 'noextra'}|{mode}"
                    try:
                        if meth == "like":
                            r = arr.like(kwargs["__other__"])
                        else:
                            r = getattr(arr, meth)(**kwargs)
                    except Exception as e:  # noqa: BLE001
                        res.traces += 1
                        res.violation(f"raises|{cls}|{type(e).__name__}", f"{label} raised {type(e).__name__}: {str(e).strip()[:160]}", case)
                        continue
                    if check_result(res, _Conv(label), arr, r, case, cls, extras, 1):
                        # every coordinate of a present vector must be present (no half-missing vectors)
                        lst = B.flat_leaves(ak.to_list(r))
                        half = [x for x in lst if isinstance(x, dict) and any(v is None for k_, v in x.items() if k_ in COORDS) and not all(v is None for k_, v in x.items() if k_ in COORDS)]
                        if half:
                            res.violation(f"half_missing|{cls}", f"{label}: result holds vectors with some coordinates missing and others present: {half[0]}", case)
                        elif not (layout == "flat" and not extras):
                            res.nontrivial += 1
    res.sample({"mode": mode, "conversions": f"{dim}D {L.sysname(system)}", "layouts": list(LAYOUTS)})


def fclose(p, q, scale=1.0):
    if isinstance(p, bool) or isinstance(q, bool):
        return bool(p) == bool(q)
    if p != p or q != q:
        return p != p and q != q
    return abs(p - q) <= 1e-11 * max(abs(p), abs(q), scale)


def run_records(res: Result, dim, tier, mode):
    """array[i, j] behaves like the equivalent vector object"""
    for system in L.SYSTEMS[dim]:
        vs = [v for v in A.vectors(dim, tier) if C03._well(v)]
        rows = [tuple(float(x) for x in S.stored(v, system)) for v in vs if S.stored(v, system) is not None][:6]
        if len(rows) < 6:
            continue
        for flavor in ("generic", "momentum"):
            for layout, pick in (("jagged", (2, 1)), ("nested3", (2, 1, 0)), ("optrec", (0, 1)), ("regular", (1, 0)), ("flat", (3,))):
                arr = build(system, flavor, rows, layout, ("charge",))
                rec = arr[pick]
                lst = ak.to_list(arr)
                for i in pick:
                    lst = lst[i]
                names = L.field_names(system)
                row = tuple(lst[n] for n in names)
                obj = B.make_obj(system, flavor, row)
                base = {"mode": mode, "op": "__records__", "sys": list(system), "flavor": flavor, "layout": layout, "index": list(pick)}
                if not isinstance(rec, vector.backends.awkward.VectorAwkward) or not isinstance(rec, ak.Record):
                    res.violation(f"record_type|{layout}|{mode}", f"array{list(pick)} is {type(rec).__name__}, not a vector record", base)
                    continue
                if rec["charge"] != lst["charge"]:
                    res.violation(f"record_extra|{layout}|{mode}", "selected record lost its extra field value", base)
                for op in OPS:
                    if dim not in op.dims or (op.momentum_only and flavor != "momentum"):
                        continue
                    s = C03.scalars_for(op)
                    others_r, others_o = [], []
                    if op.other is not None:
                        dimB = dim if op.other == "same" else (dim if dim in op.other else op.other[0])
                        if not C03.allowed(op, dim, dimB):
                            continue
                        pr = S._beta3_partners(tier)[0] if (op.name in ("boost_beta3", "boostCM_of_beta3") or (op.name in ("boost", "boostCM_of") and dimB == 3)) else (S._booster_p4(tier)[0] if dimB == 4 and "boost" in op.name else A.partners(dimB, tier)[0])
                        prow = tuple(float(x) for x in S.stored(pr, L.CART[dimB]))
                        po = B.make_obj(L.CART[dimB], "generic", prow)
                        others_r, others_o = [po], [po]
                    res.states += 1
                    res.evaluations += 1
                    res.transitions += 2
                    res.traces += 1
                    case = dict(base, call=op.key)
                    cls = f"record|{op.key}|{layout}|{mode}"
                    try:
                        ro = op.call(obj, others_o, s)
                    except Exception:  # noqa: BLE001
                        res.count("object_backend_raises")
                        continue
                    try:
                        rr = op.call(rec, others_r, s)
                    except Exception as e:  # noqa: BLE001
                        res.violation(f"{cls}|raises|{C03._tclass(system, None)}", f"{op.key} on the selected record raised {type(e).__name__}: {str(e).strip()[:140]}; the object gives {ro!r}", case)
                        continue
                    if op.ret == "vec":
                        try:
                            k1, k2 = B.result_rows(rr), B.result_rows(ro)
                            further = float(rr.rho)
                        except Exception as e:  # noqa: BLE001
                            res.violation(f"{cls}|result_unusable", f"the result of {op.key} on a record cannot be used as a vector: {type(e).__name__}: {str(e)[:120]}", case)
                            continue
                        if k1[1:3] != k2[1:3] or not all(fclose(p, q) or (nme == "phi" and C03.angle_close(p, q)) for nme, p, q in zip(L.field_names(k1[1]), k1[3][0], k2[3][0])):
                            res.violation(f"{cls}|value", f"{op.key}: record gives {k1[1:]}, object gives {k2[1:]}", case)
                            continue
                        if not fclose(further, float(ro.rho)):
                            res.violation(f"{cls}|value", f"{op.key}(...).rho: record gives {further}, object gives {float(ro.rho)}", case)
                            continue
                    else:
                        a, b = (bool(rr), bool(ro)) if op.ret == "bool" else (float(rr), float(ro))
                        if not (C03.angle_close(a, b) if op.name in ("phi", "deltaphi") else fclose(a, b)):
                            res.violation(f"{cls}|value", f"{op.key}: record gives {a!r}, object gives {b!r}", case)
                            continue
                    res.nontrivial += 1
    res.sample({"mode": mode, "records": f"array[i, j] in {dim}D", "layouts": ["jagged", "nested3", "optrec", "regular", "flat"]})


def _leaves(lst, path=()):
    if isinstance(lst, list):
        for i, x in enumerate(lst):
            yield from _leaves(x, path + (i,))
    else:
        yield path, lst


def _at(lst, path):
    for i in path:
        lst = lst[i]
    return lst


def _shape_only(lst):
    return [_shape_only(x) for x in lst] if isinstance(lst, list) else "."


def run_mixed_depth(res: Result, dim, tier, mode):
    """A vector array and an argument (booster, axis, second vector, factor or angle array) of *different nesting depth* (flat against
    jagged, jagged against doubly jagged), in both orders: the result has the list structure of the deeper operand, every leaf
    equals the object-backend result of the two elements that broadcast to it, and the extra field of the transformed vector
    array arrives at the leaf level (two-vector combinations carry none)."""
    shapes = {("flat", "jagged"): ([0, 1, 2], [[0, 1], [], [2, 3, 4]]), ("jagged", "nested3"): ([[0, 1], [], [2]], [[[0], [1, 2]], [], [[3, 4, 5]]])}

    def fill(shape, items):
        return [fill(x, items) for x in shape] if isinstance(shape, list) else items[shape]

    def vec_array(system, flavor, rows, shape, extra):
        names = L.field_names(system, flavor)
        recs = [dict(zip(names, r), **({extra: 10 + i} if extra else {})) for i, r in enumerate(rows)]
        return vector.Array(ak.Array(fill(shape, recs)))

    ops = []
    if dim == 4:
        ops += [("boost_p4", 4, "vec", lambda v, a: v.boost_p4(a)), ("boost(4D)", 4, "vec", lambda v, a: v.boost(a)), ("boost_beta3", 3, "beta", lambda v, a: v.boost_beta3(a)),
                ("boostCM_of_p4", 4, "vec", lambda v, a: v.boostCM_of_p4(a)), ("boostX(beta=array)", None, "beta1", lambda v, a: v.boostX(beta=a))]
    if dim >= 3:
        ops += [("rotate_axis", 3, "vec", lambda v, a: v.rotate_axis(a, 0.375)), ("rotateX(array)", None, "num", lambda v, a: v.rotateX(a)), ("cross", 3, "vec2", lambda v, a: v.cross(a))] if dim == 3 else \
               [("rotate_axis", 3, "vec", lambda v, a: v.rotate_axis(a, 0.375)), ("rotateX(array)", None, "num", lambda v, a: v.rotateX(a))]
    ops += [("scale(array)", None, "num", lambda v, a: v.scale(a)), ("rotateZ(array)", None, "num", lambda v, a: v.rotateZ(a)), ("add", dim, "vec2", lambda v, a: v.add(a)),
            ("subtract", dim, "vec2", lambda v, a: v.subtract(a)), ("dot", dim, "scalar", lambda v, a: v.dot(a)), ("deltaphi", dim, "scalar", lambda v, a: v.deltaphi(a))]
    NUMS = [0.5, -0.25, 1.5, -2.0, 0.75, 0.125]
    BETA1 = [0.5, -0.25, 0.125, -0.625, 0.75, 0.0625]
    sys_self = (L.CART[dim], L.SYSTEMS[dim][-1])
    for (ks, kd), (sh_s, sh_d) in shapes.items():
        for sa in sys_self:
            for flavor in ("generic", "momentum"):
                for oname, adim, akind, call in ops:
                    for self_is in ("shallow", "deep"):
                        rows_v = [tuple(float(x) for x in S.stored(v, sa)) for v in A.representatives([v for v in A.vectors(dim, "quick") if C03._well(v) and not v.has("wildphi") and S.stored(v, sa) is not None], 6)]
                        n_self = 3 if (self_is == "shallow" and ks == "flat") else (3 if self_is == "shallow" else (5 if kd == "jagged" else 6))
                        shape_self, shape_arg = (sh_s, sh_d) if self_is == "shallow" else (sh_d, sh_s)
                        n_arg = 1 + max(p for _, p in _leaves(shape_arg))
                        if len(rows_v) < 6:
                            continue
                        v = vec_array(sa, flavor, rows_v, shape_self, "quality")
                        if akind in ("vec", "vec2", "scalar"):
                            sb = L.SYSTEMS[adim][-1] if sa == L.CART[dim] else L.CART[adim]
                            if oname.startswith("boost") and adim == 4:
                                ps = S._booster_p4("thorough")
                            else:
                                ps = [p_ for p_ in A.partners(adim, "thorough") if not (p_.has("spacelike") or p_.has("negtime") or p_.has("fast"))]
                            rows_arg = [tuple(float(x) for x in S.stored(ps[i % len(ps)], sb)) for i in range(6)]
                            arg = vec_array(sb, "generic", rows_arg, shape_arg, "weight")
                            arg_objs = [B.make_obj(sb, "generic", r) for r in rows_arg]
                        elif akind == "beta":
                            sb = L.CART[3]
                            rows_arg = [tuple(float(c) for c in S._beta3_partners("thorough")[i % 5].comps) for i in range(6)]
                            arg = vec_array(sb, "generic", rows_arg, shape_arg, None)
                            arg_objs = [B.make_obj(sb, "generic", r) for r in rows_arg]
                        else:
                            vals = BETA1 if akind == "beta1" else NUMS
                            arg = ak.Array(fill(shape_arg, vals))
                            arg_objs = vals
                        objs_v = [B.make_obj(sa, flavor, r) for r in rows_v]
                        res.states += 1
                        res.evaluations += 1
                        res.transitions += 1
                        case = {"mode": mode, "op": "__mixed_depth__", "dim": dim, "method": oname, "sysA": list(sa), "flavor": flavor, "self": f"{ks if self_is == 'shallow' else kd}", "argument": f"{kd if self_is == 'shallow' else ks}"}
                        cls = f"mixed_depth|{oname}|{dim}D|{case['self']}x{case['argument']}|{mode}"
                        try:
                            r = call(v, arg)
                        except Exception as e:  # noqa: BLE001
                            res.traces += 1
                            res.violation(f"raises|{cls}|{type(e).__name__}", f"{oname} of a {case['self']} array with a {case['argument']} argument raised {type(e).__name__}: {str(e).strip()[:160]}", case)
                            continue
                        res.traces += 1
                        out = ak.to_list(r) if isinstance(r, ak.Array) else None
                        deep_shape = _shape_only(fill(sh_d, list(range(6))))
                        if out is None or _shape_only(out) != deep_shape:
                            res.violation(f"structure|{cls}", f"{oname}: result type {ak.type(r) if out is not None else type(r).__name__}, list structure {_shape_only(out) if out is not None else None}; the operands broadcast to {deep_shape}", case)
                            continue
                        bad = None
                        idx_self, idx_arg = fill(shape_self, list(range(6))), fill(shape_arg, list(range(6)))
                        for path, leaf in _leaves(out):
                            ps_, pa_ = (path[: len(path) - 1], path) if self_is == "shallow" else (path, path[: len(path) - 1])
                            i_self, i_arg = _at(idx_self, ps_), _at(idx_arg, pa_)
                            try:
                                ref = call(objs_v[i_self], arg_objs[i_arg])
                            except Exception:  # noqa: BLE001
                                continue
                            if akind == "scalar":
                                ok_ = isinstance(leaf, (int, float)) and (C03.angle_close(float(leaf), float(ref)) if oname == "deltaphi" else C03.fclose(float(leaf), float(ref), 64.0))
                                if not ok_:
                                    bad = f"element {path}: {leaf!r}, the object backend gives {float(ref)!r}"
                                    break
                                continue
                            if not isinstance(leaf, dict):
                                bad = f"element {path} is {leaf!r}, not a vector record"
                                break
                            osys, ost = L.system_of(ref)
                            gn = L.field_names(osys)
                            if not all(n_ in leaf for n_ in gn) or not all((C03.angle_close(float(leaf[n_]), float(q)) if n_ == "phi" else C03.fclose(float(leaf[n_]), float(q), 64.0)) for n_, q in zip(gn, ost)):
                                bad = f"element {path}: {leaf}, the object backend gives {dict(zip(gn, (float(x) for x in ost)))}"
                                break
                            extra_out = {k_: v_ for k_, v_ in leaf.items() if k_ not in COORDS}
                            want_extra = {} if akind == "vec2" else {"quality": 10 + i_self}
                            if extra_out != want_extra:
                                bad = f"element {path}: non-coordinate fields {extra_out}, expected {want_extra}"
                                break
                        if bad is None and akind != "scalar" and not isinstance(r, vector.backends.awkward.VectorAwkward):
                            bad = f"result {type(r).__name__} has no vector behavior"
                        if bad:
                            res.violation(f"element|{cls}", f"{oname} ({case['self']} array, {case['argument']} argument): {bad}", case)
                        else:
                            res.nontrivial += 1
    res.sample({"mode": mode, "op": "__mixed_depth__", "dim": dim, "methods": [o[0] for o in ops], "depth_pairs": [list(k) for k in shapes]})


def run_shard(shard, tier):
    res = Result()
    if shard["mode"] == "registered":
        vector.register_awkward()
    else:
        if vector._awkward_registered:
            raise RuntimeError("harness: worker process already has register_awkward() applied")
    if shard["op"] == "__mixed_depth__":
        run_mixed_depth(res, shard["dimA"], tier, shard["mode"])
    elif shard["op"] == "__records__":
        run_records(res, shard["dimA"], tier, shard["mode"])
    elif shard["op"] == "__conversions__":
        run_conversions(res, shard["dimA"], tuple(shard["sys"]), tier, shard["mode"])
    else:
        run_op(res, BY_KEY[shard["op"]], shard["dimA"], shard["dimB"], tier, shard["mode"])
    return res


def replay(case):
    import multiprocessing

    # replay in a fresh process when the registered mode is needed
    def work(q):
        res = Result()
        if case["mode"] == "registered":
            vector.register_awkward()
        if case["op"] == "__mixed_depth__":
            run_mixed_depth(res, case["dim"], "thorough", case["mode"])
        elif case["op"] == "__records__":
            run_records(res, len(case["sys"]) + 1, "thorough", case["mode"])
        elif case["op"] == "__conversions__":
            run_conversions(res, len(case["sys"]) + 1, tuple(case["sys"]), "thorough", case["mode"])
        else:
            op = BY_KEY[case["op"]]
            run_op(res, op, len(case["sysA"]) + 1, (len(case["sysB"]) + 1) if case.get("sysB") else None, "thorough", case["mode"])
        q.put(res)

    ctx = multiprocessing.get_context("fork")
    q = ctx.Queue()
    p = ctx.Process(target=work, args=(q,))
    p.start()
    out = q.get()
    p.join()
    return out
