"""C03 — object, NumPy and Awkward backends compute the same values.

Backend differential (L3): every catalogued operation x coordinate-system signature x
flavor x backend pairing (object / NumPy / Awkward array / Awkward record, including
mixed pairings) x container shape or list layout x scalar-argument form; element i of
every array result is compared with the object-backend result for element i, and the
shape / list structure of the result with that of the operands.
"""

from __future__ import annotations

import itertools
import math
import sys

import numpy as np

from .. import alphabet as A
from .. import build as B
from .. import lattice as L
from .. import sweep as S
from ..catalogue import BY_KEY, OPS
from ..result import Result
from .C05 import PRIO, allowed

import awkward as ak  # noqa: E402
import vector  # noqa: E402

ID = "C03"
RULE = (
    "cases = operation x signature x flavor x backend pairing x container shape / layout x scalar-argument form; each case is one call on array (or record) "
    "operands whose every element is compared with the object-backend result for that element; states = cases, transitions = implementation calls (array calls "
    "plus per-element object calls); non-trivial = a case with at least one non-object operand and at least one finite compared element; distinct = distinct cases"
)
ASSUMPTIONS = [
    "element values: the well-conditioned float64 alphabet (no near-axis / near-light-cone strata); agreement |u - v| <= 1e-11 max(|u|, |v|, S^k) with S the operand scale and k the homogeneity degree; NaN = NaN, +-inf equal, booleans equal; azimuthal results compared modulo 2 pi",
    "mixed NumPy x Awkward pairings use flat / regular Awkward layouts of the NumPy array's shape (shapes that NumPy and Awkward cannot broadcast against each other are not part of the lattice)",
    "records are single elements: AKR pairings are evaluated element by element on a subset of the alphabet",
    "an int64-typed stratum (integer stored coordinates in NumPy / Awkward fields and Python ints in objects) is driven for every operation on unary / diagonal+cross signatures",
    "known Awkward-side failures are listed in known_findings.json (tau-stored object boosted by an Awkward booster)",
    "rotate_axis with an axis whose backend outranks the rotated vector's (object self with array axis, NumPy self with Awkward axis) is outside the lattice: the stated rule makes the result backend that of self, which cannot hold the broadcast of a richer axis",
]
CAP_S = {"quick": 2400, "thorough": 10800}
NP_SHAPES = ("1d", "2d", "one", "empty", "strided", "F2d", "swapped")  # strided: every other record of a larger array; F2d: Fortran-ordered 2-D; swapped: fields in non-native byte order
AK_LAYOUTS = ("flat", "jagged", "nested3", "optlist", "optrec", "regular", "empty", "jagged+qopt")  # +qopt: an option-typed extra field, missing where the vector is present
EXCLUDE = set()


def bounds(tier):
    return {"tier": tier, "operations": len(OPS), "numpy_shapes": NP_SHAPES, "awkward_layouts": AK_LAYOUTS,
            "signatures": "unary: all; binary: all for same-backend pairings, diagonal+cross for mixed pairings" if tier == "quick" else "all",
            "scalar_forms": ["plain number", "array of numbers with the container's structure"], "tolerance": "1e-11 relative"}


def shards(tier):
    out = []
    for op in OPS:
        for dimA in op.dims:
            for dimB in S.second_dims(op, dimA):
                if dimB is not None and dimA == 4 and dimB == 4 and tier == "thorough":
                    for sa in L.SYSTEMS[4]:
                        out.append({"op": op.key, "dimA": dimA, "dimB": dimB, "sysA": list(sa)})
                else:
                    out.append({"op": op.key, "dimA": dimA, "dimB": dimB})
    for dim in (2, 3, 4):
        for sysx in L.SYSTEMS[dim]:
            out.append({"kind": "mutation", "dim": dim, "sys": list(sysx)})
    return out


SCAL = {"factor": -0.5, "angle": 4.0, "phi": 0.3125, "theta": -2.5, "psi": 4.0, "order": "yzx", "yaw": 0.3125, "pitch": -2.5, "roll": 4.0,
        "u": 0.5, "i": -0.5, "j": 0.5, "k": 0.5, "beta": -0.25, "gamma": -2.5, "tolerance": 1e-5, "rtol": 1e-5, "atol": 1e-8}
ARRAYABLE = ("factor", "angle", "phi", "beta", "gamma", "yaw", "u", "tolerance", "rtol")


def scalars_for(op):
    s = dict(SCAL)
    if op.name.startswith("transform"):
        n = int(op.name[-2])
        s["matrix"] = {2: A.MATRIX2, 3: A.MATRIX3, 4: A.MATRIX4}[n]
    if op.variant == "beta":
        s.pop("gamma")
    if op.variant == "gamma":
        s.pop("beta")
    return s


def _well(v):
    return not (v.has("near_axis") or v.has("fast") or v.has("boundary") or v.has("negtime"))


def operand_rows(op, dimA, dimB, sa, sb, tier):
    """aligned lists of stored rows for the first (and second) operand"""
    firsts = [v for v in A.vectors(dimA, tier) if _well(v)]
    if tier != "thorough":
        # always keep the vectors whose azimuth is stored outside [-pi, pi] (a stratum of its own)
        reg, wild = [v for v in firsts if not v.has("wildphi")], [v for v in firsts if v.has("wildphi")]
        firsts = A.representatives(reg, 6) + wild
    rows_a, rows_b = [], []
    if dimB is None:
        for v in firsts:
            st = S.stored(v, sa)
            if st is not None:
                rows_a.append(tuple(float(x) for x in st))
        return rows_a, None
    if op.name in ("boost_p4", "boostCM_of_p4") or (op.name in ("boost", "boostCM_of") and dimB == 4):
        seconds = S._booster_p4(tier)
    elif op.name in ("boost_beta3", "boostCM_of_beta3") or (op.name in ("boost", "boostCM_of") and dimB == 3):
        seconds = S._beta3_partners(tier)
    else:
        seconds = [p for p in A.partners(dimB, tier) if _well(p)]
    for i, v in enumerate(firsts):
        p = seconds[i % len(seconds)]
        s0, s1 = S.stored(v, sa), S.stored(p, sb)
        if s0 is None or s1 is None:
            continue
        rows_a.append(tuple(float(x) for x in s0))
        rows_b.append(tuple(float(x) for x in s1))
    return rows_a, rows_b


def ref_value(op, r):
    """object-backend result -> comparable python value"""
    if op.ret == "vec":
        system, st = L.system_of(r)
        return ("vec", system, tuple(float(x) for x in st), "momentum" if isinstance(r, vector.Momentum) else "generic")
    if op.ret == "bool":
        return ("bool", bool(r))
    return ("num", float(r))


def fclose(p, q, scale):
    if p is None or q is None:
        return p is None and q is None
    if isinstance(p, bool) or isinstance(q, bool):
        return bool(p) == bool(q)
    if p != p or q != q:
        return p != p and q != q
    if math.isinf(p) or math.isinf(q):
        return p == q
    return abs(p - q) <= 1e-11 * max(abs(p), abs(q), scale)


def angle_close(p, q):
    if p != p or q != q:
        return p != p and q != q
    d = (p - q + math.pi) % (2 * math.pi) - math.pi
    return abs(d) <= 1e-10


def make(backend, system, flavor, rows, cfg):
    if backend == "OBJ":
        return B.make_obj(system, flavor, rows[0])
    if backend == "AKR":
        return B.make_akr(system, flavor, rows[0])
    if backend == "NP":
        n = len(rows)
        if cfg == "1d":
            return B.make_np(system, flavor, rows)
        if cfg == "2d":
            m = n // 2 * 2
            return B.make_np(system, flavor, rows[:m], shape=(2, m // 2))
        if cfg == "one":
            return B.make_np(system, flavor, rows[:1])
        if cfg == "strided":
            big = []
            for r in rows:
                big += [r, tuple(-3.0 * x - 1.0 for x in r)]
            return B.make_np(system, flavor, big)[::2]
        if cfg == "swapped":
            a = B.make_np(system, flavor, rows)
            p_ = np.asarray(a.view(np.ndarray))
            return p_.astype(p_.dtype.newbyteorder(">" if sys.byteorder == "little" else "<")).view(type(a))
        if cfg == "F2d":
            m = n // 2 * 2
            return B.make_np(system, flavor, rows[:m], shape=(2, m // 2)).copy(order="F")
        if cfg == "empty":
            return B.make_np(system, flavor, rows)[:0]
    if backend == "AKA" and cfg == "jagged+qopt":
        return B.make_ak(system, flavor, rows, "jagged", extra={"qopt": [None if i % 2 else 7 + i for i in range(len(rows))]})
    if backend == "AKA":
        return B.make_ak(system, flavor, rows, cfg)
    raise KeyError((backend, cfg))


def element_rows(backend, rows, cfg):
    """which alphabet rows end up as elements (in flattened order), None for missing"""
    n = len(rows)
    if backend in ("OBJ", "AKR"):
        return [0]
    if backend == "NP":
        return {"1d": list(range(n)), "2d": list(range(n // 2 * 2)), "one": [0], "empty": [], "strided": list(range(n)), "F2d": list(range(n // 2 * 2)), "swapped": list(range(n))}[cfg]
    if cfg == "regular":
        return list(range(n // 2 * 2))
    if cfg == "empty":
        return []
    # the same arrangement as build._nest: a None list (optlist) or None record (optrec) is a missing leaf
    return B.flat_leaves(B._nest(list(range(n)), cfg.split("+")[0]))


def run_case(res: Result, op, sa, sb, fa, fb, ba, bb, cfga, cfgb, rows_a, rows_b, s, scalar_form, refcache, scale):
    dimB = None if sb is None else len(sb) + 1
    case = {"op": op.key, "sysA": list(sa), "sysB": list(sb) if sb else None, "fa": fa, "fb": fb, "ba": ba, "bb": bb, "cfgA": cfga, "cfgB": cfgb, "scalar_form": scalar_form}
    cls = f"{op.key}|{ba}" + (f"x{bb}" if bb else "") + f"|{cfga}" + (f"/{cfgb}" if cfgb else "")
    sig = f"{L.sysname(sa)}" + (f"|{L.sysname(sb)}" if sb else "")
    res.states += 1
    res.evaluations += 1
    try:
        va = make(ba, sa, fa, rows_a, cfga)
        vb = make(bb, sb, fb, rows_b, cfgb) if bb is not None else None
    except Exception as e:  # noqa: BLE001
        res.violation(f"build|{cls}", f"cannot build operands: {type(e).__name__}: {e}", case)
        return
    ea = element_rows(ba, rows_a, cfga)
    eb = element_rows(bb, rows_b, cfgb) if bb is not None else None
    # element pairing after broadcasting
    if eb is None:
        pairs = [(i, None) for i in ea]
    elif len(ea) == 1 and ba in ("OBJ", "AKR") and bb in ("NP", "AKA"):
        pairs = [(ea[0], j) for j in eb]
    elif len(eb) == 1 and bb in ("OBJ", "AKR"):
        pairs = [(i, eb[0]) for i in ea]
    else:
        if len(ea) != len(eb):
            raise RuntimeError(f"harness: operand element counts differ {len(ea)} vs {len(eb)} for {case}")
        pairs = list(zip(ea, eb))
    ss = dict(s)
    if scalar_form == "array":
        like = va if ba in ("NP", "AKA") else vb
        bk = ba if ba in ("NP", "AKA") else bb
        for k in ARRAYABLE:
            if k in ss and k in op_scalar_keys(op):
                ss[k] = B.make_scalar_like(ss[k], like, bk)
                break
    try:
        res.transitions += 1
        r = op.call(va, [vb] if vb is not None else [], ss)
    except Exception as e:  # noqa: BLE001
        res.traces += 1
        res.violation(f"raises|{cls}|{_tclass(sa, sb)}|{type(e).__name__}", f"{op.key} raised {type(e).__name__}: {str(e).strip()[:160]} on {ba}/{bb} operands (signature {sig}); the object backend computes it", case)
        return
    # flatten the result
    try:
        if op.ret == "vec":
            kind, rsys, rflavor, rrows, struct = B.result_rows(r)
            got = [None if x is None else ("vec", rsys, x, rflavor) for x in rrows]
        else:
            vals, struct = B.scalar_values(r)
            got = [None if x is None else (("bool", bool(x)) if op.ret == "bool" else ("num", float(x))) for x in vals]
    except Exception as e:  # noqa: BLE001
        res.violation(f"unreadable|{cls}", f"result of {op.key} cannot be read: {type(e).__name__}: {e} ({type(r).__name__})", case)
        return
    # structure
    want_struct = None
    src = va if ba in ("NP", "AKA") else (vb if bb in ("NP", "AKA") else None)
    if ba == "AKA":
        src = va
    elif bb == "AKA":
        src = vb
    if src is not None:
        if isinstance(src, ak.Array):
            want_struct = B.structure(ak.to_list(src))
        else:
            want_struct = src.shape
        # NumPy x Awkward / record: compare list structures; a NumPy shape is the regular nesting of that shape
        struct, want_struct = _as_lists(struct), _as_lists(want_struct)
        if not _same_struct(struct, want_struct):
            res.violation(f"structure|{cls}", f"{op.key}: result structure {struct} differs from the operand structure {want_struct}", case)
            return
    # element-wise comparison with the object backend
    if len(got) != len(pairs):
        res.violation(f"length|{cls}", f"{op.key}: {len(got)} result elements for {len(pairs)} operand elements", case)
        return
    compared = 0
    for k, (i, j) in enumerate(pairs):
        if i is None or (eb is not None and j is None):
            if got[k] is not None:
                res.violation(f"missing_not_preserved|{cls}", f"{op.key}: element {k} is missing in an operand but the result holds {got[k]}", case)
                return
            continue
        key = (i, j)
        ref = refcache.get(key)
        if ref is None:
            oa = B.make_obj(sa, fa, rows_a[i])
            ob = B.make_obj(sb, fb, rows_b[j]) if j is not None else None
            res.transitions += 1
            try:
                ref = ref_value(op, op.call(oa, [ob] if ob is not None else [], s))
            except Exception as e:  # noqa: BLE001
                ref = ("raise", type(e).__name__)
            refcache[key] = ref
        g = got[k]
        res.traces += 1
        if ref[0] == "raise":
            res.count("object_backend_raises_elementwise")
            continue
        if g is None:
            res.violation(f"value|{cls}|{sig}", f"{op.key}: element {k} is missing in the result, the object backend gives {ref}", dict(case, element=k))
            return
        if g[0] == "vec":
            if g[1] != ref[1] or g[3] != ref[3]:
                res.violation(f"system_or_flavor|{cls}|{sig}", f"{op.key}: array result is {g[3]} {g[1]}, the object backend gives {ref[3]} {ref[1]}", dict(case, element=k))
                return
            names = L.field_names(g[1])
            for nme, p, q in zip(names, g[2], ref[2]):
                ok = angle_close(p, q) if nme == "phi" else fclose(p, q, scale if nme not in ("theta", "eta") else 1.0)
                if not ok:
                    res.violation(f"value|{cls}|{sig}", f"{op.key}: element {k} coordinate {nme} = {p!r}, the object backend gives {q!r}", dict(case, element=k))
                    return
        else:
            ok = angle_close(g[1], ref[1]) if op.name in ("phi", "deltaphi") else fclose(g[1], ref[1], (scale**op.degree if op.degree else 1.0))
            if not ok:
                res.violation(f"value|{cls}|{sig}", f"{op.key}: element {k} = {g[1]!r}, the object backend gives {ref[1]!r}", dict(case, element=k))
                return
        compared += 1
    if compared and not (ba == "OBJ" and bb in (None, "OBJ")):
        res.nontrivial += 1


def _as_lists(st):
    if isinstance(st, tuple):
        def mk(shape):
            if not shape:
                return "."
            return [mk(shape[1:]) for _ in range(shape[0])]
        return mk(st)
    return st


def _same_struct(a, b):
    if isinstance(a, list) and isinstance(b, list):
        return len(a) == len(b) and all(_same_struct(x, y) for x, y in zip(a, b))
    return (a is None) == (b is None)


def _tclass(sa, sb):
    t = [s_[2] for s_ in (sa, sb) if s_ is not None and len(s_) > 2]
    return "/".join(t) or "any"


def op_scalar_keys(op):
    fam = {"factor": ["factor"], "angle": ["angle"], "euler": ["phi"], "nautical": ["yaw"], "quaternion": ["u"], "beta": ["beta"], "gamma": ["gamma"],
           "tol0": ["tolerance"], "tol_light": ["tolerance"], "tol_angle": ["tolerance"], "rtol_atol": ["rtol"]}
    out = []
    for f in op.scalars:
        out += fam.get(f, [])
    return out


def configs(ba, bb, tier):
    """container configurations (cfgA, cfgB) for a backend pairing"""
    def one(b):
        return {"OBJ": [None], "AKR": [None], "NP": list(NP_SHAPES), "AKA": list(AK_LAYOUTS)}[b]

    if bb is None:
        return [(c, None) for c in one(ba)]
    if ba == bb == "NP":
        return [("1d", "1d"), ("2d", "2d"), ("empty", "empty"), ("strided", "1d"), ("1d", "strided"), ("F2d", "2d"), ("F2d", "F2d"), ("swapped", "1d"), ("1d", "swapped")]
    if ba == bb == "AKA":
        return [(c, c) for c in ("flat", "jagged", "nested3", "optlist", "optrec", "regular", "empty")] + [("jagged+qopt", "jagged")] if tier == "thorough" else [(c, c) for c in ("flat", "jagged", "optrec", "regular")] + [("jagged+qopt", "jagged")]
    if {ba, bb} == {"NP", "AKA"}:
        return [("1d", "flat")] if ba == "NP" else [("flat", "1d")]
    # a single object / record against an array: broadcast
    if ba in ("OBJ", "AKR") and bb in ("NP", "AKA"):
        return [(None, "1d" if bb == "NP" else "jagged")]
    if bb in ("OBJ", "AKR") and ba in ("NP", "AKA"):
        return [("1d" if ba == "NP" else "jagged", None)]
    return [(None, None)]


def run_broadcast(res: Result, op, dimA, dimB, tier):
    """NumPy broadcasting between *different* shapes: a column of vectors (n, 1) against a row (1, m) or a vector (m,) of second
    operands or of scalar arguments gives an (n, m) result whose element [i, j] is the object-backend result for (a_i, b_j)."""
    s = scalars_for(op)
    keys = [k for k in ARRAYABLE if k in s and k in op_scalar_keys(op)]
    if dimB is None and not keys:
        return
    flavor = "momentum" if op.momentum_only else "generic"
    for sa, sb in S.signatures(op, dimA, dimB, "diag" if dimB is not None else "all"):
        rows_a, rows_b = operand_rows(op, dimA, dimB, sa, sb, "quick")
        if not rows_a or len(rows_a) < 3 or (dimB is not None and len(rows_b) < 2):
            continue
        rows_a = rows_a[:3]
        n, m = 3, 2
        va = B.make_np(sa, flavor, rows_a).reshape(n, 1)
        for bshape in ((1, m), (m,)):
            ss = dict(s)
            svals = None
            if dimB is not None:
                rb = rows_b[1:1 + m] if len(rows_b) > m else rows_b[:m]
                vb = B.make_np(sb, "generic", rb).reshape(bshape)
                others = [vb]
            else:
                k = keys[0]
                svals = [s[k], s[k] * 0.5] if k not in ("gamma",) else [s[k], s[k] * 1.5]
                ss[k] = np.array(svals, dtype=np.float64).reshape(bshape)
                others = []
            res.states += 1
            res.evaluations += 1
            res.transitions += 1 + n * m
            case = {"kind": "broadcast", "op": op.key, "sysA": list(sa), "sysB": list(sb) if sb else None, "bshape": list(bshape)}
            cls = f"broadcast|{op.key}|{'x'.join(map(str, bshape))}|{L.sysname(sa)}" + (f"|{L.sysname(sb)}" if sb else "")
            try:
                r = op.call(va, others, ss)
                if op.ret == "vec":
                    _, rsys, _, rrows, shape = B.result_rows(r)
                    got = [("vec", rsys, x) for x in rrows]
                else:
                    vals, shape = B.scalar_values(r)
                    got = [("num", x) for x in vals]
            except Exception as e:  # noqa: BLE001
                # outer-product broadcasting is more than the statement promises ("element by element ... the shape is preserved"); the
                # pinned tree rejects it for operations with pass-through coordinates.  Where a result *is* returned it must be right.
                res.count("broadcast_between_different_shapes_rejected")
                continue
            if tuple(shape) != (n, m) or len(got) != n * m:
                res.violation(cls + "|shape", f"{op.key} on shapes ({n}, 1) x {bshape} returned shape {shape}, expected {(n, m)}", case)
                continue
            bad = None
            for i in range(n):
                for j in range(m):
                    oa = B.make_obj(sa, flavor, rows_a[i])
                    so = dict(s)
                    oth = []
                    if dimB is not None:
                        oth = [B.make_obj(sb, "generic", rb[j])]
                    else:
                        so[keys[0]] = svals[j]
                    res.traces += 1
                    try:
                        ref = op.call(oa, oth, so)
                    except Exception:  # noqa: BLE001
                        continue
                    g = got[i * m + j]
                    if op.ret == "vec":
                        osys, ost = L.system_of(ref)
                        if osys != g[1] or not all((angle_close(float(p), float(q)) if nm == "phi" else fclose(float(p), float(q), 64.0)) for nm, p, q in zip(L.field_names(osys), g[2], ost)):
                            bad = f"element [{i}, {j}] = {g[1:]} but the object backend gives {osys}{tuple(float(x) for x in ost)}"
                    elif op.ret == "bool":
                        if bool(g[1]) != bool(ref):
                            bad = f"element [{i}, {j}] = {g[1]} but the object backend gives {ref}"
                    elif not (angle_close(float(g[1]), float(ref)) if op.name in ("phi", "deltaphi") else fclose(float(g[1]), float(ref), 64.0)):
                        bad = f"element [{i}, {j}] = {g[1]!r} but the object backend gives {float(ref)!r}"
                    if bad:
                        break
                if bad:
                    break
            if bad:
                res.violation(cls, f"{op.key} on shapes ({n}, 1) x {bshape}: {bad}", case)
            else:
                res.nontrivial += 1


def run_mutation(res: Result, dim, system, tier):
    """Element i equals the object-backend result for element i *also after the array was updated through the container's own
    public assignment API* (ak.Array / ndarray item assignment of a coordinate field): everything is evaluated once, one stored
    coordinate field is re-assigned in place, and everything is evaluated again on the same array object."""
    vs = [v for v in A.representatives([v for v in A.vectors(dim, tier) if _well(v) and not v.has("wildphi")], 4)]
    rows0 = [tuple(float(x) for x in S.stored(v, system)) for v in vs if S.stored(v, system) is not None]
    if len(rows0) < 2:
        return
    unary = [op for op in OPS if op.other is None and dim in op.dims and not op.scalars]
    for flavor in ("generic", "momentum"):
        fnames = L.field_names(system, flavor)
        for backend, cfg in (("AKA", "flat"), ("AKA", "jagged"), ("NP", "1d")):
            for fi, fname in enumerate(fnames):
                arr = make(backend, system, flavor, rows0, cfg)
                stored_name = (ak.fields(arr) if backend == "AKA" else arr.dtype.names)[fi]
                ops_here = [op for op in unary if not (op.momentum_only and flavor != "momentum")]
                for op in ops_here:  # first evaluation (fills whatever the backend may keep)
                    try:
                        op.call(arr, [], {})
                    except Exception:  # noqa: BLE001
                        pass
                delta = 0.375 if L.field_names(system)[fi] not in ("theta",) else 0.125
                try:
                    arr[stored_name] = arr[stored_name] + delta
                except Exception as e:  # noqa: BLE001
                    res.count("field_assignment_not_supported")
                    continue
                rows1 = [tuple(x + (delta if j == fi else 0.0) for j, x in enumerate(r)) for r in rows0]
                elems = element_rows(backend, rows1, cfg)
                objs = [B.make_obj(system, flavor, rows1[i]) for i in elems]
                case = {"kind": "mutation", "dim": dim, "sys": list(system), "flavor": flavor, "backend": backend, "cfg": cfg, "field": fname}
                for op in ops_here:
                    res.states += 1
                    res.evaluations += 1
                    res.transitions += 1 + len(objs)
                    cls = f"mutation|{op.key}|{backend}|{cfg}|{L.sysname(system)}"
                    try:
                        r = op.call(arr, [], {})
                        if op.ret == "vec":
                            _, rsys, _, rrows, _ = B.result_rows(r)
                            got = [("vec", rsys, x) for x in rrows]
                        else:
                            got = [("num", x) for x in B.scalar_values(r)[0]]
                    except Exception as e:  # noqa: BLE001
                        res.violation(cls + "|raises", f"{op.key} after assigning field {fname} raised {type(e).__name__}: {str(e)[:140]}", dict(case, op=op.key))
                        continue
                    bad = None
                    if len(got) != len(objs):
                        bad = f"{len(got)} elements, expected {len(objs)}"
                    for k, o in enumerate(objs):
                        if bad:
                            break
                        res.traces += 1
                        try:
                            ref = op.call(o, [], {})
                        except Exception:  # noqa: BLE001
                            continue
                        if op.ret == "vec":
                            osys, ost = L.system_of(ref)
                            if osys != got[k][1] or not all((angle_close(float(p), float(q)) if n == "phi" else fclose(float(p), float(q), 64.0)) for n, p, q in zip(L.field_names(osys), got[k][2], ost)):
                                bad = f"element {k}: {got[k][1:]} but the object backend gives {osys}{tuple(float(x) for x in ost)} for the updated coordinates {rows1[elems[k]]}"
                        elif op.ret == "bool":
                            if bool(got[k][1]) != bool(ref):
                                bad = f"element {k}: {got[k][1]} but the object backend gives {ref}"
                        elif not (angle_close(float(got[k][1]), float(ref)) if op.name in ("phi",) else fclose(float(got[k][1]), float(ref), 64.0)):
                            bad = f"element {k}: {got[k][1]!r} but the object backend gives {float(ref)!r} for the updated coordinates {rows1[elems[k]]}"
                    if bad:
                        res.violation(cls, f"{op.key} after arr[{stored_name!r}] = ... : {bad}", dict(case, op=op.key))
                    else:
                        res.nontrivial += 1
    res.sample({"kind": "mutation", "sys": list(system), "unary_operations": len(unary), "backends": ["AKA flat", "AKA jagged", "NP 1d"]})


def run_inplace_ops(res: Result, dim, system, tier):
    """In-place operators and out= ufunc calls on NumPy vector arrays whose dtype lists the coordinate fields in canonical, reversed
    and rotated order: what the operation leaves in its *target* (seen through a second reference) is, element by element and
    field by field (by name), what the same augmented assignment leaves in an object vector of the same coordinate system;
    the rebound name holds the same vectors."""
    import operator as _o

    NPCLS = {("generic", 2): vector.VectorNumpy2D, ("generic", 3): vector.VectorNumpy3D, ("generic", 4): vector.VectorNumpy4D,
             ("momentum", 2): vector.MomentumNumpy2D, ("momentum", 3): vector.MomentumNumpy3D, ("momentum", 4): vector.MomentumNumpy4D}
    vs = [v for v in A.representatives([v for v in A.vectors(dim, tier) if _well(v) and not v.has("wildphi")], 4)]
    rows_a = [tuple(float(x) for x in S.stored(v, system)) for v in vs if S.stored(v, system) is not None]
    ps = [p for p in A.partners(dim, "quick") if S.stored(p, system) is not None and not (p.has("spacelike") or p.has("negtime"))]
    if len(rows_a) < 2 or not ps:
        return
    rows_b = [tuple(float(x) for x in S.stored(ps[i % len(ps)], system)) for i in range(len(rows_a))]
    gnames = L.field_names(system)
    nf = len(gnames)
    orders = {"canonical": list(range(nf)), "reversed": list(range(nf))[::-1], "rotated": list(range(1, nf)) + [0]}
    events = [("*= 2.5", lambda a, b: _o.imul(a, 2.5), lambda o, w: _o.imul(o, 2.5)), ("*= -0.5", lambda a, b: _o.imul(a, -0.5), lambda o, w: _o.imul(o, -0.5)),
              ("/= 4", lambda a, b: _o.itruediv(a, 4), lambda o, w: _o.itruediv(o, 4)), ("+= b", lambda a, b: _o.iadd(a, b), lambda o, w: _o.iadd(o, w)),
              ("-= b", lambda a, b: _o.isub(a, b), lambda o, w: _o.isub(o, w)),
              ("numpy.negative(a, out=a)", lambda a, b: np.negative(a, out=a), lambda o, w: _o.imul(o, -1)),
              ("numpy.multiply(a, 3, out=a)", lambda a, b: np.multiply(a, 3, out=a), lambda o, w: _o.imul(o, 3)),
              ("numpy.add(a, b, out=a)", lambda a, b: np.add(a, b, out=a), lambda o, w: _o.iadd(o, w))]
    for flavor in ("generic", "momentum"):
        fnames = L.field_names(system, flavor)
        for oname, perm in orders.items():
            for bname in ("canonical", "reversed"):
                for ename, f, g in events:
                    if bname != "canonical" and "b" not in ename.replace("numpy", ""):
                        continue

                    def mk(rows, order):
                        raw = np.zeros(len(rows), dtype=[(fnames[j], np.float64) for j in order])
                        for j in range(nf):
                            raw[fnames[j]] = [r[j] for r in rows]
                        return raw.view(NPCLS[(flavor, dim)])

                    a, b = mk(rows_a, perm), mk(rows_b, orders[bname])
                    alias = a
                    res.states += 1
                    res.evaluations += 1
                    res.transitions += 1 + len(rows_a)
                    case = {"kind": "inplace_ops", "dim": dim, "sys": list(system), "flavor": flavor, "field_order": oname, "operand_field_order": bname, "event": ename}
                    cls = f"inplace_ops|{ename}|{L.sysname(system)}|{oname}" + ("" if bname == "canonical" else "|operand-" + bname)
                    try:
                        a = f(a, b)
                    except Exception as e:  # noqa: BLE001
                        res.violation(cls + "|raises", f"{ename} on a NumPy array with fields {alias.dtype.names} raised {type(e).__name__}: {str(e)[:140]}", case)
                        continue
                    bad = None
                    for i in range(len(rows_a)):
                        o, w = B.make_obj(system, flavor, rows_a[i]), B.make_obj(system, flavor, rows_b[i])
                        o = g(o, w)
                        osys, ost = L.system_of(o)
                        for holder, what in ((alias, "target"), (a, "rebound name")):
                            res.traces += 1
                            try:
                                hsys = B.system_of_fields(holder.dtype.names)
                                got = [float(holder.view(np.ndarray)[n][i]) for n in L.field_names(hsys)]
                            except Exception as e:  # noqa: BLE001
                                bad = f"{what}: {type(e).__name__}: {e}"
                                break
                            if hsys != osys:
                                ref = getattr(o, "to_" + "".join(L.field_names(hsys)))()
                                want = [float(x) for x in L.system_of(ref)[1]]
                            else:
                                want = [float(x) for x in ost]
                            if not all((angle_close(p, q) if n == "phi" else fclose(p, q, 64.0)) for n, p, q in zip(L.field_names(hsys), got, want)):
                                bad = f"element {i} of the {what} (fields {holder.dtype.names}) holds {dict(zip(L.field_names(hsys), got))}, the object backend after the same {ename} holds {dict(zip(L.field_names(hsys), want))}"
                                break
                        if bad:
                            break
                    if bad:
                        res.violation(cls, f"{ename}: {bad}", case)
                    else:
                        res.nontrivial += 1
    res.sample({"kind": "inplace_ops", "sys": list(system), "events": [e[0] for e in events], "field_orders": list(orders)})


def run_shard(shard, tier):
    res = Result()
    if shard.get("kind") == "mutation":
        run_inplace_ops(res, shard["dim"], tuple(shard["sys"]), tier)
        run_mutation(res, shard["dim"], tuple(shard["sys"]), tier)
        return res
    op = BY_KEY[shard["op"]]
    dimA, dimB = shard["dimA"], shard["dimB"]
    only_sa = tuple(shard["sysA"]) if "sysA" in shard else None
    s = scalars_for(op)
    full = tier == "thorough"
    sig_all = [sg for sg in S.signatures(op, dimA, dimB, "all") if only_sa is None or sg[0] == only_sa]
    sig_diag = [sg for sg in S.signatures(op, dimA, dimB, "diag") if only_sa is None or sg[0] == only_sa] if dimB is not None else sig_all
    backs = ("OBJ", "NP", "AKA", "AKR")
    pairings = [(b, None) for b in backs if b != "OBJ"] if dimB is None else [p for p in itertools.product(backs, backs) if p != ("OBJ", "OBJ")]
    flavors = ["momentum"] if op.momentum_only else ["generic", "momentum"]
    sampled = False
    for sa, sb in sig_all:
        rows_a, rows_b = operand_rows(op, dimA, dimB, sa, sb, tier)
        if not rows_a:
            continue
        scale = max(1.0, max(abs(x) for r in rows_a + (rows_b or []) for x in r)) ** 2
        for fa in flavors:
            for fb in ((("generic", "momentum") if full else ("generic" if fa == "momentum" else "momentum",)) if dimB is not None else (None,)):
                refcache = {}
                for ba, bb in pairings:
                    same = bb is None or ba == bb
                    if bb is not None and not op.counted_other and PRIO[bb] > PRIO[ba]:
                        continue  # a secondary (uncounted) operand of a higher-priority backend: outside the lattice, see ASSUMPTIONS
                    if not full and not same and (sa, sb) not in sig_diag:
                        continue
                    if "AKR" in (ba, bb) and not full and (sa, sb) not in sig_diag and dimB is not None:
                        continue
                    for cfga, cfgb in configs(ba, bb, tier):
                        forms = ["plain"]
                        if op_scalar_keys(op) and (ba in ("NP", "AKA") or bb in ("NP", "AKA")) and cfga not in ("empty",) and (cfga in ("1d", "jagged", "2d", "flat", None)):
                            forms.append("array")
                        for form in forms:
                            run_case(res, op, sa, sb, fa, fb, ba, bb, cfga, cfgb, rows_a, rows_b, s, form, refcache, scale)
        if not sampled:
            sampled = True
            if only_sa is None or only_sa == L.CART[dimA]:
                for dt in ("int64", "int32", "float32"):
                    run_int_dtype(res, op, dimA, dimB, tier, dt)
                run_broadcast(res, op, dimA, dimB, tier)
            res.sample({"op": op.key, "sysA": list(sa), "sysB": list(sb) if sb else None, "elements": len(rows_a), "first_row": list(rows_a[0]), "pairings": len(pairings)})
    return res


INT_ROWS = {2: [(3, 1), (2, -2), (5, 3)], 3: [(3, 1, 2), (2, -2, 1), (5, 3, -1)], 4: [(3, 1, 2, 9), (2, -2, 1, 7), (5, 3, -1, 11)]}
INT_ROWS_B = {2: [(1, 2), (4, -1), (2, 2)], 3: [(1, 2, -1), (4, -1, 2), (2, 2, 1)], 4: [(1, 2, -1, 6), (4, -1, 2, 9), (2, 2, 1, 8)]}


def _int_rows(system, which):
    """integer stored coordinates valid in any system (theta in (0, pi); tau >= 0 for the first operand)"""
    rows = (INT_ROWS if which == "a" else INT_ROWS_B)[len(system) + 1]
    out = []
    for r in rows:
        r = list(r)
        if len(system) > 1 and system[1] == "theta":
            r[2] = abs(r[2]) if r[2] != 0 else 1
            r[2] = min(r[2], 3)
        if system[0] == "rhophi":
            r[0] = abs(r[0])
        out.append(tuple(r))
    return out


def run_int_dtype(res: Result, op, dimA, dimB, tier, dtype="int64"):
    """integer-typed (int64, int32) or single-precision (float32) coordinate fields in NumPy / Awkward arrays holding small
    integers: same values as the object backend with the same integer coordinates (float32: to 1e-3, gross errors only)"""
    npdt = {"int64": np.int64, "int32": np.int32, "float32": np.float32}[dtype]

    def near(p, q, is_phi):
        if dtype != "float32":
            return angle_close(p, q) if is_phi else fclose(p, q, 200.0)
        if p != p or q != q:
            return p != p and q != q
        if math.isinf(p) or math.isinf(q):
            return p == q or abs(p) > 1e30 or abs(q) > 1e30
        d = abs(p - q)
        if is_phi:
            d = min(d, abs(d - 2 * math.pi))
        return d <= 1e-3 * max(1.0, abs(q))

    if op.name in ("boost_beta3", "boostCM_of_beta3") or (op.name in ("boost", "boostCM_of") and dimB == 3):
        return  # an integer velocity has |beta| >= 1
    if op.momentum_only:
        return  # the integer stratum uses generic-flavor operands
    s = scalars_for(op)
    sigs = S.signatures(op, dimA, dimB, "diag" if dimB is not None else "all")
    for sa, sb in sigs:
        ra = _int_rows(sa, "a")
        rb = _int_rows(sb, "b") if sb is not None else None
        for backend in ("NP", "AKA"):
            res.states += 1
            res.evaluations += 1
            names_a = L.field_names(sa)
            case = {"op": op.key, "sysA": list(sa), "sysB": list(sb) if sb else None, "ba": backend, "dtype": dtype}
            cls = f"{op.key}|{backend}|{dtype}"

            def mk(system, rows):
                names = L.field_names(system)
                if backend == "NP":
                    return vector.array({n: np.array([r[i] for r in rows], dtype=npdt) for i, n in enumerate(names)})
                arr = ak.Array([dict(zip(names, r)) for r in rows])
                return vector.Array(arr if dtype == "int64" else ak.values_astype(arr, npdt))

            try:
                va = mk(sa, ra)
                vb = mk(sb, rb) if sb is not None else None
                res.transitions += 1
                r = op.call(va, [vb] if vb is not None else [], s)
                if op.ret == "vec":
                    _, rsys, rfl, rrows, _ = B.result_rows(r)
                    got = [("vec", rsys, x) for x in rrows]
                else:
                    vals, _ = B.scalar_values(r)
                    got = [("num", x) for x in vals]
            except Exception as e:  # noqa: BLE001
                res.violation(f"raises|{cls}|{type(e).__name__}", f"{op.key} on {dtype}-typed {backend} operands raised {type(e).__name__}: {str(e).strip()[:150]}", case)
                continue
            ok = len(got) == len(ra)
            for k in range(len(ra)):
                if not ok:
                    break
                oa = L.build_object(B.OBJ_CLASS[("generic", dimA)], sa, ra[k])
                ob = L.build_object(B.OBJ_CLASS[("generic", dimB)], sb, rb[k]) if sb is not None else None
                res.transitions += 1
                res.traces += 1
                try:
                    ref = op.call(oa, [ob] if ob is not None else [], s)
                except Exception:  # noqa: BLE001
                    res.count("object_backend_raises_elementwise")
                    continue
                if op.ret == "vec":
                    osys, ost = L.system_of(ref)
                    if osys != got[k][1]:
                        ok = False
                        break
                    for nme, p, q in zip(L.field_names(osys), got[k][2], ost):
                        if not near(float(p), float(q), nme == "phi"):
                            ok = False
                else:
                    p, q = got[k][1], ref
                    if op.ret == "bool":
                        ok = ok and bool(p) == bool(q)
                    else:
                        ok = ok and near(float(p), float(q), op.name in ("phi", "deltaphi"))
            if not ok:
                res.violation(f"value|{cls}|{L.sysname(sa)}", f"{op.key} on {dtype}-typed {backend} operands differs from the object backend with the same integer coordinates", case)
            else:
                res.nontrivial += 1


def replay(case):
    res = Result()
    if case.get("kind") == "broadcast":
        op = BY_KEY[case["op"]]
        run_broadcast(res, op, len(case["sysA"]) + 1, (len(case["sysB"]) + 1) if case.get("sysB") else None, "quick")
        return res
    if case.get("kind") == "inplace_ops":
        run_inplace_ops(res, case["dim"], tuple(case["sys"]), "quick")
        return res
    if case.get("kind") == "mutation":
        run_mutation(res, case["dim"], tuple(case["sys"]), "quick")
        return res
    op = BY_KEY[case["op"]]
    if case.get("dtype"):
        sa = tuple(case["sysA"])
        run_int_dtype(res, op, len(sa) + 1, (len(case["sysB"]) + 1) if case.get("sysB") else None, "quick", case["dtype"])
        return res
    sa = tuple(case["sysA"])
    sb = tuple(case["sysB"]) if case.get("sysB") else None
    dimA, dimB = len(sa) + 1, (len(sb) + 1 if sb else None)
    rows_a, rows_b = operand_rows(op, dimA, dimB, sa, sb, "thorough")
    rq, rqb = operand_rows(op, dimA, dimB, sa, sb, "quick")
    for ra, rb in ((rq, rqb), (rows_a, rows_b)):
        scale = max(1.0, max(abs(x) for r in ra + (rb or []) for x in r)) ** 2
        run_case(res, op, sa, sb, case["fa"], case["fb"], case["ba"], case["bb"], case["cfgA"], case["cfgB"], ra, rb, scalars_for(op), case["scalar_form"], {}, scale)
    return res
