"""C06 — constructors accept the documented coordinate sets and store them verbatim.

Exhaustive over every subset of up to 5 of the 19 recognised coordinate names for each
constructor (vector.obj, the six object classes, vector.array in dict and dtype form,
vector.zip, vector.Array), with a distinct tag value per name, against M_ctor, a
30-line recogniser of the documented grammar; plus value kinds and unknown names on
every accepted set.
"""

from __future__ import annotations

import itertools

import numpy as np

from .. import build as B
from .. import lattice as L
from ..result import Result

import awkward as ak  # noqa: E402
import vector  # noqa: E402

ID = "C06"
RULE = (
    "cases = constructor x name set (all subsets of <= 5 of the 19 recognised names; plus value-kind and unknown-name variants of every accepted set); "
    "non-trivial = the constructor's answer (accepted class/system/flavor/stored values, or the exception type) was compared with the grammar model; "
    "distinct = distinct (constructor, name set, keyword order, value-kind variant)"
)
ASSUMPTIONS = [
    "M_ctor: resolve synonyms; reject a generic name occurring twice; exactly one complete azimuthal pair, at most one longitudinal, at most one temporal, temporal only with longitudinal, nothing else; momentum iff a synonym was used (obj / array constructors) or the class's flavor",
    "array constructors (vector.array, vector.zip, vector.Array) are held to the weaker contract of the statement: they may reject with any exception or carry extra names as extra fields, but what they return must be a complete valid coordinate subset of the given names with unchanged values; on sets the grammar accepts they must agree with vector.obj",
    "values are finite numbers; NaN/inf are outside the property",
]
CAP_S = {"quick": 900, "thorough": 3600}

NAMES = ["x", "px", "y", "py", "rho", "pt", "phi", "z", "pz", "theta", "eta", "t", "E", "e", "energy", "tau", "M", "m", "mass"]
SYN = {"px": "x", "py": "y", "pt": "rho", "pz": "z", "E": "t", "e": "t", "energy": "t", "M": "tau", "m": "tau", "mass": "tau"}
TAG = {n: float(i + 1) + 0.25 for i, n in enumerate(NAMES)}
OBJ_CLASSES = {
    "VectorObject2D": (vector.VectorObject2D, 2, "generic"), "VectorObject3D": (vector.VectorObject3D, 3, "generic"),
    "VectorObject4D": (vector.VectorObject4D, 4, "generic"), "MomentumObject2D": (vector.MomentumObject2D, 2, "momentum"),
    "MomentumObject3D": (vector.MomentumObject3D, 3, "momentum"), "MomentumObject4D": (vector.MomentumObject4D, 4, "momentum"),
}
NCHUNK = 48


def bounds(tier):
    return {"tier": tier, "name_sets": sum(1 for k in range(0, 6) for _ in itertools.combinations(NAMES, k)),
            "constructors": ["obj"] + sorted(OBJ_CLASSES) + ["array(dict)", "array(dtype)", "zip", "Array"] + ["the 20 from_<names> class methods on the 6 object classes"],
            "value_kinds": "int, float, numpy.float64, numpy.int32, numpy.float32 accepted verbatim; bool, None, str, complex, list, numpy.bool_ rejected (one position at a time, every accepted set)",
            "unknown_names": ["w", "pE"], "value_sets": "distinct tag values; all 0.0; all 0; zero for the first / last written name", "column_containers": "every accepted set through vector.array(dict) and vector.zip with the columns in mixed containers (int64/int32/float32/float64 arrays, lists, tuples), all 6 rotations",
            "keyword_orders": "keyword constructors: every permutation of every name set (5-name sets in quick: canonical, reversed, 4 rotations); array constructors: canonical and reversed field order"}


def all_sets():
    out = []
    for k in range(0, 6):
        out.extend(itertools.combinations(NAMES, k))
    return out


def shards(tier):
    n = len(all_sets())
    step = (n + NCHUNK - 1) // NCHUNK
    return [{"lo": i, "hi": min(n, i + step)} for i in range(0, n, step)]


# ------------------------------------------------------------------------------ M_ctor
def m_ctor(names):
    """-> None (reject) or (dim, system, flavor, {generic field: given name})"""
    origin = {}
    for n in names:
        g = SYN.get(n, n)
        if g in origin:
            return None  # the same coordinate spelled twice through synonyms
        if g not in ("x", "y", "rho", "phi", "z", "theta", "eta", "t", "tau"):
            return None  # unknown name
        origin[g] = n
    g = set(origin)
    azpart = g & {"x", "y", "rho", "phi"}
    if azpart == {"x", "y"}:
        az = "xy"
    elif azpart == {"rho", "phi"}:
        az = "rhophi"
    else:
        return None
    lon = g & {"z", "theta", "eta"}
    tmp = g & {"t", "tau"}
    if len(lon) > 1 or len(tmp) > 1 or (tmp and not lon):
        return None
    system = (az,) + tuple(lon) + tuple(tmp)
    flavor = "momentum" if any(n in SYN for n in names) else "generic"
    return (len(system) + 1, system, flavor, origin)


def _describe_obj(v):
    system, st = L.system_of(v)
    flavor = "momentum" if isinstance(v, vector.Momentum) else "generic"
    return (len(system) + 1, system, flavor, st)


def _expect_values(system, origin, values):
    return tuple(values[origin[f]] for f in L.field_names(system))


def _same(a, b):
    """stored value identical to the supplied one (same object, or same type and bits)"""
    if a is b:
        return True
    return type(a) is type(b) and a == b


# ------------------------------------------------------------------------------ checks
def check_objlike(res, ctor_name, fn, names, values, want, case):
    """vector.obj and the classes: TypeError for every rejected set, verbatim storage else."""
    res.transitions += 1
    res.traces += 1
    res.evaluations += 1
    try:
        v = fn(**{n: values[n] for n in names})
    except TypeError:
        if want is None:
            res.nontrivial += 1
        else:
            res.violation(f"rejects_valid|{ctor_name}|{_setkey(names)}", f"{ctor_name}({', '.join(names)}) raised TypeError but the set is a documented one", case)
        return None
    except Exception as e:  # noqa: BLE001
        res.violation(f"wrong_exception|{ctor_name}|{type(e).__name__}|{_setkey(names)}", f"{ctor_name}({', '.join(names)}) raised {type(e).__name__}: {e} (TypeError expected)" if want is None else f"{ctor_name}({', '.join(names)}) raised {type(e).__name__}: {e}", case)
        return None
    if want is None:
        res.violation(f"accepts_invalid|{ctor_name}|{_shape(names)}", f"{ctor_name}({', '.join(f'{n}=' for n in names)}) was accepted and built {v!r}; the documented grammar rejects this name set", case)
        return None
    dim, system, flavor, origin = want
    got = _describe_obj(v)
    exp_vals = _expect_values(system, origin, values)
    if got[:3] != (dim, system, flavor):
        res.violation(f"wrong_type|{ctor_name}|{_setkey(names)}", f"{ctor_name}({', '.join(names)}) built {got[:3]}, expected {(dim, system, flavor)}", case)
    elif not all(_same(a, b) for a, b in zip(got[3], exp_vals)):
        res.violation(f"wrong_values|{ctor_name}|{_setkey(names)}", f"{ctor_name}({', '.join(names)}) stored {got[3]}, supplied {exp_vals}", case)
    else:
        res.nontrivial += 1
    return v


def _setkey(names):
    canon = sorted(names, key=NAMES.index)
    return "+".join(canon) + ("" if list(names) == canon else "|other-keyword-order")


def orders(names, tier):
    """keyword orders other than the canonical one: all permutations (every set in thorough, sets of <= 4 names in quick);
    for 5-name sets in quick the reversal and the four rotations"""
    names = tuple(names)
    if len(names) < 2:
        return []
    if tier == "thorough" or len(names) <= 4:
        return [p for p in itertools.permutations(names) if p != names]
    out = [names[::-1]] + [names[i:] + names[:i] for i in range(1, len(names))]
    return [p for p in dict.fromkeys(out) if p != names]


def _shape(names):
    """coarse description of an invalid set, so that one defect is one class"""
    generic = [SYN.get(n, n) for n in names]
    dups = sorted({g for g in generic if generic.count(g) > 1})
    if dups:
        which = sorted(n for n in names if SYN.get(n, n) in dups)
        return "duplicate:" + "+".join(which)
    return "set:" + "+".join(sorted(set(generic)))


def describe_arraylike(r):
    """(dim, system, flavor, {field: column values}) of a NumPy / Awkward vector array"""
    if isinstance(r, np.ndarray):
        if not isinstance(r, vector.backends.numpy.VectorNumpy):
            return None
        names = r.dtype.names
        system = []
        az = r._azimuthal_type
        system.append("xy" if az.__name__.endswith("XY") else "rhophi")
        if hasattr(r, "_longitudinal_type"):
            system.append({"Z": "z", "Theta": "theta", "Eta": "eta"}[r._longitudinal_type.__name__.replace("LongitudinalNumpy", "")])
        if hasattr(r, "_temporal_type"):
            system.append({"T": "t", "Tau": "tau"}[r._temporal_type.__name__.replace("TemporalNumpy", "")])
        plain = r.view(np.ndarray)
        cols = {n: plain[n].reshape(-1).tolist() for n in names}
        flavor = "momentum" if isinstance(r, vector.Momentum) else "generic"
        dim = 4 if isinstance(r, vector.Vector4D) else 3 if isinstance(r, vector.Vector3D) else 2
        return (dim, tuple(system), flavor, cols)
    if isinstance(r, ak.Array):
        if not isinstance(r, vector.backends.awkward.VectorAwkward):
            return None
        fields = ak.fields(r)
        dim = 4 if isinstance(r, vector.Vector4D) else 3 if isinstance(r, vector.Vector3D) else 2
        try:
            system = [L.CLASS_NAME[vector._methods._aztype(r)]]
            if dim >= 3:
                system.append(L.CLASS_NAME[vector._methods._ltype(r)])
            if dim >= 4:
                system.append(L.CLASS_NAME[vector._methods._ttype(r)])
        except Exception:  # noqa: BLE001
            return ("incomplete", dim, fields)
        cols = {n: ak.to_list(r[n]) for n in fields}
        flavor = "momentum" if isinstance(r, vector.Momentum) else "generic"
        return (dim, tuple(system), flavor, cols)
    return None


def check_arraylike(res, ctor_name, fn, names, values, want, case):
    res.transitions += 1
    res.traces += 1
    res.evaluations += 1
    try:
        r = fn(names, values)
    except Exception as e:  # noqa: BLE001
        if want is not None:
            res.violation(f"rejects_valid|{ctor_name}|{_setkey(names)}", f"{ctor_name} raised {type(e).__name__}: {str(e)[:150]} for the documented set {names}", case)
        else:
            res.nontrivial += 1
        return
    d = describe_arraylike(r)
    if d is None:
        res.violation(f"not_a_vector|{ctor_name}|{_shape(names)}", f"{ctor_name}({names}) returned {type(r).__name__}, not a vector array", case)
        return
    if d[0] == "incomplete":
        res.violation(f"incomplete|{ctor_name}|{_shape(names)}", f"{ctor_name}({names}) returned a {d[1]}D vector array whose fields {d[2]} do not form a complete coordinate set", case)
        return
    dim, system, flavor, cols = d
    coord_fields = L.field_names(system)
    if len(system) + 1 != dim:
        res.violation(f"incomplete|{ctor_name}|{_shape(names)}", f"{ctor_name}({names}) built a {dim}D vector with coordinate system {system}", case)
        return
    # every coordinate field must come, unchanged, from a given name that denotes it
    for f in coord_fields:
        cands = [n for n in names if SYN.get(n, n) == f]
        if f not in cols or not any(cols[f] == [values[n]] for n in cands):
            res.violation(f"wrong_values|{ctor_name}|{_shape(names)}", f"{ctor_name}({names}): coordinate field {f} = {cols.get(f)} does not hold the value supplied for {cands}", case)
            return
    if want is not None:
        wd, ws, wf, origin = want
        if (dim, system, flavor) != (wd, ws, wf):
            res.violation(f"disagrees_with_obj|{ctor_name}|{_setkey(names)}", f"{ctor_name}({names}) built {(dim, system, flavor)} but vector.obj builds {(wd, ws, wf)}", case)
            return
    res.nontrivial += 1


def _array_dict(names, values):
    return vector.array({n: np.array([values[n]]) for n in names})


def _array_dtype(names, values):
    return vector.array([tuple(values[n] for n in names)], dtype=[(n, np.float64) for n in names])


def _array_dtype_positional(names, values):
    return vector.array([tuple(values[n] for n in names)], [(n, np.float64) for n in names])


def _array_dtype_object_positional(names, values):
    return vector.array([tuple(values[n] for n in names)], np.dtype([(n, np.float64) for n in names]))


def _zip(names, values):
    return vector.zip({n: ak.Array([values[n]]) for n in names})


def _Array(names, values):
    return vector.Array([{n: values[n] for n in names}])


CONTAINERS = {
    "ndarray[i8]": lambda vals: (np.array([int(v) for v in vals], dtype=np.int64), [float(int(v)) for v in vals]),
    "list": lambda vals: ([float(v) for v in vals], [float(v) for v in vals]),
    "ndarray[f8]": lambda vals: (np.array(vals, dtype=np.float64), [float(v) for v in vals]),
    "tuple": lambda vals: (tuple(float(v) for v in vals), [float(v) for v in vals]),
    "ndarray[f4]": lambda vals: (np.array(vals, dtype=np.float32), [float(np.float32(v)) for v in vals]),
    "ndarray[i4]": lambda vals: (np.array([int(v) for v in vals], dtype=np.int32), [float(int(v)) for v in vals]),
    "ndarray[u2]": lambda vals: (np.array([abs(int(v)) for v in vals], dtype=np.uint16), [float(abs(int(v))) for v in vals]),
    "ndarray[u1]": lambda vals: (np.array([abs(int(v)) % 200 for v in vals], dtype=np.uint8), [float(abs(int(v)) % 200) for v in vals]),
}


def check_mixed_containers(res: Result, names, want, case):
    """A documented name set whose columns come in *different containers* (integer / float32 / float64 arrays, lists, tuples,
    in every rotation over the names): every column is stored with its own values unchanged."""
    dim, system, flavor, origin = want
    kinds = list(CONTAINERS)
    rowvals = {n: [TAG[n], -TAG[n] - 0.375, TAG[n] + 0.1] for n in names}  # fractional values an integer dtype cannot hold
    for rot in range(len(kinds)):
        assign = {n: kinds[(i + rot) % len(kinds)] for i, n in enumerate(names)}
        cols, expect = {}, {}
        for n in names:
            cols[n], expect[n] = CONTAINERS[assign[n]](rowvals[n])
        akcols = {n: (ak.Array(c) if not isinstance(c, tuple) else ak.Array(list(c))) for n, c in cols.items()}
        for cname, build in (("array(dict)", lambda: vector.array(dict(cols))), ("zip", lambda: vector.zip(akcols)), ("Array(ak.zip)", lambda: vector.Array(ak.zip(akcols))),
                             ("Array(ak.zip + uint8 extra)", lambda: vector.Array(ak.zip(dict(akcols, nhits=ak.Array(np.array([3, 0, 7], dtype=np.uint8))))))):
            res.states += 1
            res.transitions += 1
            res.traces += 1
            res.evaluations += 1
            c2 = dict(case, ctor=cname, containers=assign)
            key = f"mixed_containers|{cname}|" + "+".join(sorted(set(assign.values())))
            try:
                d = describe_arraylike(build())
            except Exception as e:  # noqa: BLE001
                res.violation(key + "|raises", f"{cname} with columns {assign} raised {type(e).__name__}: {str(e)[:150]}", c2)
                continue
            if d is None or d[0] == "incomplete" or (d[0], d[1], d[2]) != (dim, system, flavor):
                res.violation(key + "|type", f"{cname} with columns {assign} built {d and d[:3]}, expected {(dim, system, flavor)}", c2)
                continue
            bad = [f for f in L.field_names(system) if [float(x) for x in d[3].get(f, [])] != expect[origin[f]]]
            if not bad and "extra" in cname and [int(x) for x in d[3].get("nhits", [])] != [3, 0, 7]:
                bad = ["nhits"]
                expect = dict(expect, nhits=[3, 0, 7])
                origin = dict(origin, nhits="nhits")
                assign = dict(assign, nhits="ndarray[u1]")
            if bad:
                f = bad[0]
                res.violation(key, f"{cname} with columns {assign}: coordinate {f} holds {d[3].get(f)}, supplied {expect[origin[f]]} (as {assign[origin[f]]})", c2)
            else:
                res.nontrivial += 1


def check_option_columns(res: Result, names, want, case):
    """A documented name set whose columns are option-typed (a missing entry at a *different* position in every column; all in
    the same position; lists with None, numpy masked arrays, jagged lists): every column is stored with its own values and its
    own missing positions; vector.zip, vector.Array of the same records and vector.Array(ak.zip) agree."""
    dim, system, flavor, origin = want
    n = len(names)
    base = {nm: [TAG[nm], -TAG[nm] - 0.375, TAG[nm] + 0.1, 2 * TAG[nm]] for nm in names}
    for pattern in ("staggered", "aligned", "one column"):
        miss = {nm: ({i % 4} if pattern == "staggered" else {1} if pattern == "aligned" else ({2} if i == n - 1 else set())) for i, nm in enumerate(names)}
        lists = {nm: [None if k in miss[nm] else v for k, v in enumerate(base[nm])] for nm in names}
        masked = {nm: np.ma.MaskedArray(base[nm], mask=[k in miss[nm] for k in range(4)]) for nm in names}
        jag = {nm: [lists[nm][:1], [], lists[nm][1:]] for nm in names}
        recs = [{nm: lists[nm][k] for nm in names} for k in range(4)]
        ctors = (("zip(lists with None)", lambda: vector.zip({nm: ak.Array(lists[nm]) for nm in names}), lists), ("zip(masked arrays)", lambda: vector.zip(dict(masked)), lists),
                 ("zip(jagged with None)", lambda: vector.zip({nm: ak.Array(jag[nm]) for nm in names}), jag), ("Array(records with None)", lambda: vector.Array(recs), lists),
                 ("Array(ak.zip with None)", lambda: vector.Array(ak.zip({nm: ak.Array(lists[nm]) for nm in names})), lists))
        for cname, build, expect in ctors:
            res.states += 1
            res.transitions += 1
            res.traces += 1
            res.evaluations += 1
            c2 = dict(case, ctor=cname, option_pattern=pattern)
            key = f"option_columns|{cname}|{pattern}"
            try:
                r = build()
                fields = ak.fields(r)
                got = {f: ak.to_list(r[f]) for f in fields}
            except Exception as e:  # noqa: BLE001
                res.violation(key + "|raises", f"{cname} ({pattern} missing entries) raised {type(e).__name__}: {str(e)[:150]}", c2)
                continue
            d = (B.system_of_fields(fields) if set(L.field_names(system)) <= set(fields) else None, "momentum" if isinstance(r, vector.Momentum) else "generic")
            if d != (system, flavor):
                res.violation(key + "|type", f"{cname} built fields {fields} ({d[1]}), expected {L.field_names(system)} ({flavor})", c2)
                continue
            bad = [f for f in L.field_names(system) if got[f] != expect[origin[f]]]
            if bad:
                f = bad[0]
                res.violation(key, f"{cname} ({pattern} missing entries): coordinate {f} holds {got[f]}, supplied {expect[origin[f]]}", c2)
            else:
                res.nontrivial += 1


def check_repeat_calls(res: Result, names, want, case):
    """The array constructors called twice with the *same argument objects* (a numpy.dtype object, a dtype list, a dict of columns,
    a list of records) build the same vector both times and leave their arguments as they were."""
    dim, system, flavor, origin = want
    rows = [tuple(TAG[n] for n in names), tuple(-TAG[n] for n in names)]
    dt_obj = np.dtype([(n, np.float64) for n in names])
    dt_list = [(n, np.float64) for n in names]
    cols = {n: np.array([TAG[n], -TAG[n]]) for n in names}
    recs = [{n: TAG[n] for n in names}, {n: -TAG[n] for n in names}]
    akcols = {n: ak.Array([TAG[n], -TAG[n]]) for n in names}
    forms = [("array(dtype object)", lambda: vector.array(rows, dtype=dt_obj), lambda: tuple(dt_obj.names)), ("array(dtype list)", lambda: vector.array(rows, dtype=dt_list), lambda: tuple(n for n, _ in dt_list)),
             ("array(dict)", lambda: vector.array(cols), lambda: tuple(cols)), ("Array(records)", lambda: vector.Array(recs), lambda: tuple(recs[0])), ("zip", lambda: vector.zip(akcols), lambda: tuple(akcols))]
    for cname, build, argnames in forms:
        res.states += 1
        res.transitions += 2
        res.traces += 1
        res.evaluations += 1
        c2 = dict(case, ctor=cname, repeat=True)
        key = f"repeat_call|{cname}|{flavor}"
        try:
            d1 = describe_arraylike(build())
            d2 = describe_arraylike(build())
        except Exception as e:  # noqa: BLE001
            res.violation(key + "|raises", f"{cname}({', '.join(names)}) called twice with the same argument objects raised {type(e).__name__}: {str(e)[:150]}", c2)
            continue
        if d1 is None or d2 is None or d1[:3] != d2[:3] or d1[:3] != (dim, system, flavor):
            res.violation(key, f"{cname}({', '.join(names)}) built {d1 and d1[:3]} the first time and {d2 and d2[:3]} the second time it was given the same argument objects (documented: {(dim, system, flavor)})", c2)
        elif argnames() != tuple(names):
            res.violation(key + "|argument_modified", f"{cname}: the caller's argument now names {argnames()} instead of {tuple(names)}", c2)
        else:
            res.nontrivial += 1


def check_rewrap(res: Result, names, want, case):
    """vector.Array applied to an Awkward vector array whose fields were changed with ak.without_field / ak.with_field (which keep the
    old record name): dimension, coordinate system and flavor must follow the *present* fields, incomplete sets must not build a vector."""
    dim, system, flavor, origin = want
    base = vector.zip({n: ak.Array([TAG[n], -TAG[n]]) for n in names})
    present = ak.fields(base)
    variants = [("without:" + f, lambda f=f: ak.without_field(base, f), [n for n in names if SYN.get(n, n) != f]) for f in present]
    if dim < 4 and "eta" not in present and "theta" not in present and "z" not in present:
        variants.append(("with:eta", lambda: ak.with_field(base, ak.Array([0.5, -0.25]), "eta"), list(names) + ["eta"]))
    for vname, mk, now_names in variants:
        res.states += 1
        res.transitions += 1
        res.traces += 1
        res.evaluations += 1
        c2 = dict(case, ctor="Array(rewrap)", variant=vname)
        expect = m_ctor(tuple(now_names)) if now_names else None
        key = f"rewrap|{vname.split(':')[0]}|{dim}D"
        try:
            r = vector.Array(mk())
        except Exception:  # noqa: BLE001
            if expect is None:
                res.nontrivial += 1
            else:
                res.violation(key + "|rejects_valid", f"vector.Array of a {dim}D vector array after {vname} raised although the remaining names {now_names} are a documented set", c2)
            continue
        d = describe_arraylike(r)
        if expect is None:
            if d is not None and d[0] != "incomplete" and isinstance(r, vector.backends.awkward.VectorAwkward):
                # the weak contract: whatever is accepted must be a complete valid subset of the present fields
                have = set(ak.fields(r))
                need = set(L.field_names(d[1]))
                if len(d[1]) + 1 != d[0] or not need <= have:
                    res.violation(key + "|incomplete", f"vector.Array after {vname} built a {d[0]}D vector ({type(r).__name__}) from the fields {sorted(have)}", c2)
                    continue
            res.nontrivial += 1
            continue
        if d is None or d[0] == "incomplete" or (d[0], d[1]) != (expect[0], expect[1]):
            res.violation(key, f"vector.Array after {vname} built {d and d[:3]} ({type(r).__name__}); the present fields {now_names} denote {expect[:3]}", c2)
        else:
            res.nontrivial += 1


ARRAY_CTORS = {"array(dict)": _array_dict, "array(dtype)": _array_dtype, "array(rows, dtype positional)": _array_dtype_positional, "array(rows, numpy.dtype positional)": _array_dtype_object_positional,
               "zip": _zip, "Array": _Array}

GOOD_KINDS = {"int": lambda x: int(x), "numpy.float64": lambda x: np.float64(x), "numpy.int32": lambda x: np.int32(int(x)), "numpy.float32": lambda x: np.float32(x)}
BAD_KINDS = {"bool": lambda x: True, "None": lambda x: None, "str": lambda x: "1.0", "complex": lambda x: complex(x, 1.0), "list": lambda x: [x], "numpy.bool_": lambda x: np.bool_(True)}


def check_set(res: Result, names, tier, only=None):
    names = tuple(names)
    want = m_ctor(names)
    values = dict(TAG)
    case = {"names": list(names)}
    res.states += 1
    if only is None or only == "obj":
        check_objlike(res, "obj", vector.obj, names, values, want, dict(case, ctor="obj"))
    for cname, (cls, cdim, cflavor) in OBJ_CLASSES.items():
        if only is not None and only != cname:
            continue
        w = want
        if w is not None:
            w = (w[0], w[1], cflavor, w[3]) if w[0] == cdim else None
        if not names:
            w = None
        check_objlike(res, cname, cls, names, values, w, dict(case, ctor=cname))
    # the same name set with zero values (float and int zeros, and a zero only for the first-written name): acceptance is a matter
    # of the *names*; a presence test written as a truthiness test shows only here
    for ztag, zvals in (("all-0.0", {n: 0.0 for n in NAMES}), ("all-0", {n: 0 for n in NAMES}), ("first-0.0", dict(TAG, **({names[0]: 0.0} if names else {}))),
                        ("last-0.0", dict(TAG, **({names[-1]: 0.0} if names else {})))):
        if not names:
            break
        zc = dict(case, values=ztag)
        if only is None or only == "obj":
            check_objlike(res, "obj", vector.obj, names, zvals, want, dict(zc, ctor="obj"))
        for cname, (cls, cdim, cflavor) in OBJ_CLASSES.items():
            if only is not None and only != cname:
                continue
            w = want
            if w is not None:
                w = (w[0], w[1], cflavor, w[3]) if w[0] == cdim else None
            check_objlike(res, cname, cls, names, zvals, w, dict(zc, ctor=cname))
    for cname, fn in ARRAY_CTORS.items():
        if only is not None and only != cname:
            continue
        if not names:
            continue
        check_arraylike(res, cname, fn, names, values, want, dict(case, ctor=cname))
        if len(names) > 1:
            # the same fields given in the opposite order (dict / dtype / record field order must not matter)
            check_arraylike(res, cname, fn, names[::-1], values, want, dict(case, ctor=cname, names=list(names[::-1])))
    # keyword order: the answer of the keyword constructors must not depend on the order in which the names are written
    for perm in orders(names, tier):
        res.states += 1
        if only is None or only == "obj":
            check_objlike(res, "obj", vector.obj, perm, values, want, dict(case, ctor="obj", names=list(perm)))
        for cname, (cls, cdim, cflavor) in OBJ_CLASSES.items():
            if only is not None and only != cname:
                continue
            w = want
            if w is not None:
                w = (w[0], w[1], cflavor, w[3]) if w[0] == cdim else None
            check_objlike(res, cname, cls, perm, values, w, dict(case, ctor=cname, names=list(perm)))
    if want is None:
        return
    if only in (None, "array(dict)", "zip"):
        check_mixed_containers(res, names, want, case)
    if only is None or str(only).startswith(("zip(", "Array(")):
        check_option_columns(res, names, want, case)
    if only is None or case.get("repeat") or str(only).startswith(("array(", "Array(", "zip")):
        check_repeat_calls(res, names, want, case)
    if only is None or str(only).startswith("Array"):
        check_rewrap(res, names, want, case)
    dim, system, flavor, origin = want
    cls_name = ("Momentum" if flavor == "momentum" else "Vector") + f"Object{dim}D"
    ctors = {"obj": vector.obj, cls_name: OBJ_CLASSES[cls_name][0]}
    # value kinds, one position at a time
    for pos, n in enumerate(names):
        for kname, conv in GOOD_KINDS.items():
            vals = dict(values)
            vals[n] = conv(values[n])
            for cn, fn in ctors.items():
                if only is not None and only != cn:
                    continue
                res.states += 1
                check_objlike(res, cn, fn, names, vals, (dim, system, flavor if cn == "obj" else OBJ_CLASSES[cn][2], origin), dict(case, ctor=cn, kind=kname, position=n))
        for kname, conv in BAD_KINDS.items():
            vals = dict(values)
            vals[n] = conv(values[n])
            for cn, fn in ctors.items():
                if only is not None and only != cn:
                    continue
                res.states += 1
                res.transitions += 1
                res.traces += 1
                res.evaluations += 1
                try:
                    v = fn(**{m: vals[m] for m in names})
                except TypeError:
                    res.nontrivial += 1
                except Exception as e:  # noqa: BLE001
                    res.violation(f"wrong_exception|{cn}|kind:{kname}", f"{cn} with {n}={vals[n]!r} raised {type(e).__name__}: {e} (TypeError expected)", dict(case, ctor=cn, kind=kname, position=n))
                else:
                    res.violation(f"accepts_bad_value|{cn}|kind:{kname}", f"{cn}({', '.join(names)}) accepted {n}={vals[n]!r} ({kname}) and built {v!r}", dict(case, ctor=cn, kind=kname, position=n))
    # unknown names appended
    for unk in ("w", "pE"):
        for cn, fn in ctors.items():
            if only is not None and only != cn:
                continue
            res.states += 1
            res.transitions += 1
            res.traces += 1
            res.evaluations += 1
            kw = {m: values[m] for m in names}
            kw[unk] = 99.5
            try:
                v = fn(**kw)
            except TypeError:
                res.nontrivial += 1
            except Exception as e:  # noqa: BLE001
                res.violation(f"wrong_exception|{cn}|unknown:{unk}", f"{cn} with unknown name {unk} raised {type(e).__name__}: {e}", dict(case, ctor=cn, unknown=unk))
            else:
                res.violation(f"accepts_unknown|{cn}|unknown:{unk}", f"{cn}({', '.join(kw)}) accepted the unknown name {unk!r} and built {v!r}", dict(case, ctor=cn, unknown=unk))


def check_from_methods(res: Result):
    """the 20 explicit class constructors VectorObjectND.from_<names>(positional values), on generic and momentum classes"""
    for cname, (cls, cdim, cflavor) in OBJ_CLASSES.items():
        for system in L.SYSTEMS[cdim]:
            names = L.field_names(system)
            meth = "from_" + "".join(names)
            vals = tuple(TAG[n] for n in names)
            res.states += 1
            res.transitions += 1
            res.traces += 1
            res.evaluations += 1
            case = {"ctor": f"{cname}.{meth}", "names": list(names)}
            try:
                v = getattr(cls, meth)(*vals)
            except Exception as e:  # noqa: BLE001
                res.violation(f"from_raises|{cname}.{meth}", f"{cname}.{meth}{vals} raised {type(e).__name__}: {e}", case)
                continue
            got = _describe_obj(v)
            if type(v) is not cls or got[1] != system or not all(_same(a, b) for a, b in zip(got[3], vals)):
                res.violation(f"from_wrong|{cname}.{meth}", f"{cname}.{meth}{vals} built {v!r} ({type(v).__name__}, {got[1]}, {got[3]})", case)
            else:
                res.nontrivial += 1


def run_shard(shard, tier):
    res = Result()
    if shard["lo"] == 0:
        check_from_methods(res)
    sets = all_sets()[shard["lo"] : shard["hi"]]
    for names in sets:
        check_set(res, names, tier)
    if sets:
        mid = sets[len(sets) // 2]
        res.sample({"names": list(mid), "model": None if m_ctor(mid) is None else list(map(str, m_ctor(mid)[:3]))})
    return res


def replay(case):
    res = Result()
    check_set(res, tuple(case["names"]), "thorough", only=case.get("ctor"))
    return res
