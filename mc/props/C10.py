"""C10 — rotations are proper rotations and their spellings agree.

Metamorphic laws through public methods on 60-digit object vectors (all strata) and on
float64 object vectors (well-conditioned strata): every rotation spelling x every
coordinate system and dimension of the rotated vector x angle / axis / Euler / quaternion
alphabets.
"""

from __future__ import annotations

import math

import mpmath
from mpmath import mpf

from .. import alphabet as A
from .. import lattice as L
from .. import laws as W
from .. import model as G
from .. import sweep as S
from ..alphabet import Vec
from ..result import Result

ID = "C10"
RULE = (
    "cases = law x rotation spelling x coordinate system and dimension of the rotated vector (x system of the axis) x vector x angle / Euler triple and order / "
    "quaternion x layer; non-trivial = operands and exact results representable and both sides computed through the implementation and compared; "
    "distinct = distinct (law, spelling, systems, operands, arguments, layer)"
)
ASSUMPTIONS = [
    "laws checked to 1e-40 at 60 digits and to 1e-9 in float64 (well-conditioned strata)",
    "rotate_quaternion is driven with unit quaternions (cos a/2, n sin a/2); the documented product for rotate_euler(phi, theta, psi, 'abc') is R_a(-psi) R_b(-theta) R_c(-phi) with R_x/y/z the library's own rotateX/Y/Z (ROOT re-definition of the Wikipedia angles stated in the module comment)",
    "a law instance is skipped (and counted) when an exact result is not representable in the system it is returned in (rotated onto the z axis for theta/eta)",
]
CAP_S = {"quick": 1200, "thorough": 5400}
AXV = {"x": (1.0, 0.0, 0.0), "y": (0.0, 1.0, 0.0), "z": (0.0, 0.0, 1.0)}
ROT = {"x": "rotateX", "y": "rotateY", "z": "rotateZ"}


def bounds(tier):
    th = tier == "thorough"
    return {"tier": tier, "systems": "2 (rotateZ 2D) / 6 / 12", "angles": A.ANGLES_T if th else A.ANGLES_Q + [0.0, mpmath.nstr(G.PI, 10)],
            "euler_orders": "12 x {lower, upper, mixed case}", "euler_triples": len(A.EULER_TRIPLES_T if th else A.EULER_TRIPLES_Q),
            "axes": "3 generic directions x 2 lengths, coordinate axes; axis stored in all 6 systems", "layers": ["L1", "L2"]}


def shards(tier):
    out = []
    for dim in (2, 3, 4):
        for s in L.SYSTEMS[dim]:
            for layer in ("L1", "L2"):
                out.append({"dim": dim, "vsys": list(s), "layer": layer})
    return out


def _angles(tier):
    base = A.ANGLES_T if tier == "thorough" else A.ANGLES_Q
    return base + [0.0]


def _pi_angles(layer):
    # multiples of pi (exact at L1, the float64 value of pi at L2)
    return [G.PI, -G.PI / 2, 2 * G.PI] if layer == "L1" else [float(G.PI), float(-G.PI / 2), float(2 * G.PI)]


def _axes(tier):
    ax = [Vec("n0", (0.5, -1.25, 2.0), {"generic"}), Vec("n1", (-1.0, 0.25, 0.375), {"generic"})]
    if tier == "thorough":
        ax.append(Vec("n2", (0.75, 1.5, -0.625), {"generic"}))
    return ax


def _well(v):
    return not (v.has("near_axis") or v.has("fast") or v.has("boundary"))


def _stratum(v):
    return "near_axis" if v.has("near_axis") else "generic"


def run_laws(res: Result, layer, v: Vec, vsys, w: Vec, tier, only=None):
    dim = v.dim
    n = lambda x: W.num(layer, x)  # noqa: E731
    gv = v.mp()
    scale = W.scale_of(v, w)
    vdesc = {"v": list(v.comps), "vsys": list(vsys), "w": list(w.comps), "layer": layer}
    if layer == "L2" and not _well(v):
        return

    def law(name, ctx, fn, case):
        if only is not None and only != name:
            return
        res.states += 1
        cls = f"{name}|{L.sysname(vsys)}|{ctx}|{_stratum(v)}|{layer}"
        try:
            res.transitions += 1
            msg = fn()
        except W.Skip:
            res.count("skipped_not_representable")
            return
        except Exception as e:  # noqa: BLE001
            res.violation(cls + "|raises", f"{name}: {type(e).__name__}: {e}", dict(vdesc, law=name, **case))
            return
        res.traces += 1
        res.evaluations += 1
        if msg is None:
            res.nontrivial += 1
        else:
            res.violation(cls, f"{name}: {msg}", dict(vdesc, law=name, **case))

    def exact3(g):
        return g[:3] if len(g) >= 3 else g

    def need_rot(R, g, system):
        """exact rotated vector representable in `system`"""
        if len(g) == 2:
            return
        c = G.with_rest(G.apply(R, g[:3]), g)
        W.need_repr(c, system, scale, layer)

    def proper(rot, R, ctxname, case, temporal_check=True):
        """norm, dot, handedness, temporal untouched for a rotation callable rot(obj)->obj with exact matrix R"""

        def f():
            V = W.mk(layer, v, vsys)
            need_rot(R, gv, vsys)
            rv = rot(V)
            if dim == 2:
                if not W.close(rv.rho, V.rho, mpmath.sqrt(scale), layer):
                    return f"|Rv| = {mpmath.nstr(W.sc(rv.rho), 20)} but |v| = {mpmath.nstr(W.sc(V.rho), 20)}"
            else:
                if not W.close(rv.mag, V.mag, mpmath.sqrt(scale), layer):
                    return f"|Rv| = {mpmath.nstr(W.sc(rv.mag), 20)} but |v| = {mpmath.nstr(W.sc(V.mag), 20)}"
            if dim == 4 and temporal_check:
                # time / proper time untouched: the stored temporal coordinate is passed through
                if type(rv.temporal) is not type(V.temporal) or rv.temporal.elements != V.temporal.elements:
                    return f"temporal coordinate changed: {V.temporal!r} -> {rv.temporal!r}"
            for wsys in (L.CART[dim], tuple(vsys)):
                Wv = W.mk(layer, w, wsys)
                need_rot(R, w.mp(), wsys)
                rw = rot(Wv)
                # Euclidean dot of the spatial parts
                if dim == 4:
                    a, b = rv.to_Vector3D(), rw.to_Vector3D()
                    a0, b0 = V.to_Vector3D(), Wv.to_Vector3D()
                else:
                    a, b, a0, b0 = rv, rw, V, Wv
                if not W.close(a.dot(b), a0.dot(b0), scale, layer):
                    return f"Rv.Rw = {mpmath.nstr(W.sc(a.dot(b)), 20)} but v.w = {mpmath.nstr(W.sc(a0.dot(b0)), 20)} (w stored as {L.sysname(wsys)})"
                if dim == 3:
                    lhs = a.cross(b)
                    cr = a0.cross(b0)
                    need_rot(R, W.cart(cr), L.system_of(cr)[0])
                    rhs = rot(cr)
                    if not W.vclose(W.cart(lhs), W.cart(rhs), scale * scale, layer):
                        return f"Rv x Rw = {W.fmt(W.cart(lhs))} but R(v x w) = {W.fmt(W.cart(rhs))}: handedness not preserved"
            return None

        law("proper_rotation", ctxname, f, case)

    # ------------------------------------------------------------------ rotateZ (2D, 3D, 4D), rotateX/Y
    names = ["z"] if dim == 2 else ["x", "y", "z"]
    angles = _angles(tier)
    for axn in names:
        meth = ROT[axn]
        for a in angles + (_pi_angles(layer) if axn == "z" or tier == "thorough" else []):
            am = mpf(a) if not isinstance(a, mpf) else a
            R = G.rot_axis_matrix(G.AXES[axn], am)
            arg = am if layer == "L1" else float(a)
            case = {"spelling": meth, "angle": float(a)}
            proper(lambda o, m=meth, x=arg: getattr(o, m)(x), R, meth, case)

            def f_inv(m=meth, x=arg, R=R):
                V = W.mk(layer, v, vsys)
                need_rot(R, gv, vsys)
                back = getattr(getattr(V, m)(x), m)(-x)
                if not W.vclose(W.cart(back), W.cart(V), scale, layer):
                    return f"{m}(-a) after {m}(a) gives {W.fmt(W.cart(back))}, started from {W.fmt(W.cart(V))}"
                return None

            law("opposite_angle_inverts", meth, f_inv, case)
            for a2 in angles[:2]:
                a2m = mpf(a2)
                R2 = G.rot_axis_matrix(G.AXES[axn], am + a2m)
                arg2 = a2m if layer == "L1" else float(a2)

                def f_add(m=meth, x=arg, y=arg2, R=R, R2=R2):
                    V = W.mk(layer, v, vsys)
                    need_rot(R, gv, vsys)
                    need_rot(R2, gv, vsys)
                    one = getattr(getattr(V, m)(x), m)(y)
                    two = getattr(V, m)(x + y)
                    if not W.vclose(W.cart(one), W.cart(two), scale, layer):
                        return f"{m}(b) o {m}(a) = {W.fmt(W.cart(one))} but {m}(a+b) = {W.fmt(W.cart(two))}"
                    return None

                law("angles_add_about_fixed_axis", meth, f_add, dict(case, angle2=a2))
    if dim == 2:
        return

    # ------------------------------------------------------------------ rotate_axis
    for axn in "xyz":
        for a in angles[:3]:
            am = mpf(a)
            arg = am if layer == "L1" else float(a)
            R = G.rot_axis_matrix(G.AXES[axn], am)
            for asys in L.SYSTEMS[3]:
                if axn == "z" and asys[1] in ("theta", "eta"):
                    continue
                for length in (1.0, 2.5, -1.0, -0.625):  # both orientations: rotating about -e by a is rotating about e by -a
                    axis = Vec("axis", tuple(length * c + 0.0 for c in AXV[axn]), set())
                    case = {"spelling": "rotate_axis", "axis": list(axis.comps), "asys": list(asys), "angle": a}
                    sgn = 1 if length > 0 else -1

                    def f_coord(axis=axis, asys=asys, m=ROT[axn], arg=arg, R=R, sgn=sgn):
                        V = W.mk(layer, v, vsys)
                        need_rot(R, gv, vsys)
                        Ax = W.mk(layer, axis, asys)
                        r1, r2 = V.rotate_axis(Ax, arg), getattr(V, m)(sgn * arg)
                        if not W.vclose(W.cart(r1), W.cart(r2), scale, layer):
                            return f"rotate_axis({axis.comps}, a) = {W.fmt(W.cart(r1))} but {m}({'+' if sgn > 0 else '-'}a) = {W.fmt(W.cart(r2))}"
                        return None

                    law("rotate_axis_about_coordinate_axis", f"axis:{L.sysname(asys)}", f_coord, case)
    for axis in _axes(tier):
        for a in angles[:3]:
            am = mpf(a)
            arg = am if layer == "L1" else float(a)
            R = G.rot_axis_matrix(axis.mp(), am)
            for asys in L.SYSTEMS[3]:
                case = {"spelling": "rotate_axis", "axis": list(axis.comps), "asys": list(asys), "angle": a}
                ctx = f"axis:{L.sysname(asys)}"
                proper(lambda o, axis=axis, asys=asys, arg=arg: o.rotate_axis(W.mk(layer, axis, asys), arg), R, "rotate_axis|" + ctx, case)

                def f_len(axis=axis, asys=asys, arg=arg, R=R):
                    V = W.mk(layer, v, vsys)
                    need_rot(R, gv, vsys)
                    long_axis = Vec("axis2", tuple(3.5 * c for c in axis.comps), set())
                    r1 = V.rotate_axis(W.mk(layer, axis, asys), arg)
                    r2 = V.rotate_axis(W.mk(layer, long_axis, L.CART[3]), arg)
                    if not W.vclose(W.cart(r1), W.cart(r2), scale, layer):
                        return f"rotate_axis depends on the axis length / storage: {W.fmt(W.cart(r1))} vs {W.fmt(W.cart(r2))}"
                    back = r1.rotate_axis(W.mk(layer, axis, asys), -arg)
                    if not W.vclose(W.cart(back), W.cart(V), scale, layer):
                        return f"rotate_axis(n, -a) after rotate_axis(n, a) gives {W.fmt(W.cart(back))}"
                    return None

                law("rotate_axis_ignores_length_and_inverts", ctx, f_len, case)

                def f_quat(axis=axis, asys=asys, a=a, arg=arg, R=R):
                    V = W.mk(layer, v, vsys)
                    need_rot(R, gv, vsys)
                    q = A.unit_quaternion(axis.comps, a)
                    qa = q if layer == "L1" else tuple(float(c) for c in q)
                    r1 = V.rotate_quaternion(*qa)
                    r2 = V.rotate_axis(W.mk(layer, axis, asys), arg)
                    if not W.vclose(W.cart(r1), W.cart(r2), scale, layer):
                        return f"rotate_quaternion(cos a/2, n sin a/2) = {W.fmt(W.cart(r1))} but rotate_axis(n, a) = {W.fmt(W.cart(r2))}"
                    return None

                law("quaternion_equals_axis_angle", ctx, f_quat, case)
        q = A.unit_quaternion(axis.comps, 1.75)
        Rq = G.quaternion_matrix(*q)
        qa = q if layer == "L1" else tuple(float(c) for c in q)
        proper(lambda o, qa=qa: o.rotate_quaternion(*qa), Rq, "rotate_quaternion", {"spelling": "rotate_quaternion", "axis": list(axis.comps), "angle": 1.75})

    # exact quaternions with structural zeros and either sign of the scalar part: half turns written as pure quaternions
    # (u = 0, 0.0, -0.0), the identity and its negative, and the eight (+-1/2, +-1/2, +-1/2, +-1/2) thirds of a turn
    half = {"x": (1.0, 0.0, 0.0), "y": (0.0, 1.0, 0.0), "z": (0.0, 0.0, 1.0)}
    exact_q = [((u0,) + tuple(sg * c for c in half[axn]), axn) for axn in "xyz" for u0 in (0, 0.0, -0.0) for sg in (1.0, -1.0)]
    exact_q += [((1.0, 0.0, 0.0, 0.0), None), ((-1.0, 0.0, 0.0, 0.0), None), ((1, 0, 0, 0), None)]
    exact_q += [((su * 0.5, si * 0.5, 0.5, sk * 0.5), None) for su in (1, -1) for si in (1, -1) for sk in (1, -1)]
    if dim >= 3:
        for q, axn in exact_q:
            Rq = G.quaternion_matrix(*[mpf(c) for c in q])
            qa = tuple(mpf(c) for c in q) if layer == "L1" else q
            case = {"spelling": "rotate_quaternion", "quaternion": [repr(c) for c in q]}
            proper(lambda o, qa=qa: o.rotate_quaternion(*qa), Rq, "rotate_quaternion|exact", case)

            def f_exact(qa=qa, Rq=Rq, axn=axn, q=q):
                V = W.mk(layer, v, vsys)
                need_rot(Rq, gv, vsys)
                r1 = V.rotate_quaternion(*qa)
                want = G.apply(Rq, gv) if hasattr(G, "apply") else None
                if want is not None and not W.vclose(W.cart(r1)[:3], list(want)[:3], scale, layer):
                    return f"rotate_quaternion{q} = {W.fmt(W.cart(r1))} but the rotation matrix of the quaternion gives {W.fmt(list(want))}"
                if axn is not None:
                    r2 = getattr(V, ROT[axn])(mpmath.pi if layer == "L1" else math.pi)
                    if not W.vclose(W.cart(r1), W.cart(r2), scale, layer):
                        return f"the half turn rotate_quaternion{q} = {W.fmt(W.cart(r1))} but {ROT[axn]}(pi) = {W.fmt(W.cart(r2))}"
                return None

            law("quaternion_exact", "exact", f_exact, case)

    # ------------------------------------------------------------------ Euler angles and nautical angles
    triples = A.EULER_TRIPLES_T if tier == "thorough" else A.EULER_TRIPLES_Q
    for (phi, theta, psi) in triples:
        args = (mpf(phi), mpf(theta), mpf(psi)) if layer == "L1" else (phi, theta, psi)
        for order in A.EULER_ORDERS:
            R = G.euler_matrix(mpf(phi), mpf(theta), mpf(psi), order)
            case = {"spelling": "rotate_euler", "order": order, "angles": [phi, theta, psi]}

            def f_product(order=order, args=args, R=R):
                V = W.mk(layer, v, vsys)
                need_rot(R, gv, vsys)
                r1 = V.rotate_euler(*args, order)
                a, b, c = order
                # documented product R_a(-psi) R_b(-theta) R_c(-phi), built from the library's own axis rotations;
                # intermediates are taken in Cartesian storage so that they are always representable
                Vc = W.mk(layer, v, L.CART[dim])
                step = getattr(getattr(getattr(Vc, ROT[c])(-args[0]), ROT[b])(-args[1]), ROT[a])(-args[2])
                if not W.vclose(W.cart(r1), W.cart(step), scale, layer):
                    return f"rotate_euler(.., '{order}') = {W.fmt(W.cart(r1))} but {ROT[a]}(-psi) {ROT[b]}(-theta) {ROT[c]}(-phi) = {W.fmt(W.cart(step))}"
                for spelled in (order.upper(), order[0].upper() + order[1:]):
                    r2 = V.rotate_euler(*args, spelled)
                    if L.system_of(r2)[0] != L.system_of(r1)[0] or not W.vclose(W.cart(r1), W.cart(r2), scale, layer):
                        return f"order '{spelled}' differs from '{order}'"
                if order == "zxz":
                    r3 = V.rotate_euler(*args)
                    if not W.vclose(W.cart(r1), W.cart(r3), scale, layer):
                        return "default order is not 'zxz'"
                return None

            law("euler_is_product_of_axis_rotations", f"order:{order}", f_product, case)
            proper(lambda o, args=args, order=order: o.rotate_euler(*args, order), R, f"rotate_euler|{order}", case)
        Rn = G.euler_matrix(mpf(psi), mpf(theta), mpf(phi), "zyx")

        def f_naut(args=args, Rn=Rn):
            V = W.mk(layer, v, vsys)
            need_rot(Rn, gv, vsys)
            yaw, pitch, roll = args
            r1 = V.rotate_nautical(yaw, pitch, roll)
            r2 = V.rotate_euler(roll, pitch, yaw, "zyx")
            if not W.vclose(W.cart(r1), W.cart(r2), scale, layer):
                return f"rotate_nautical(yaw, pitch, roll) = {W.fmt(W.cart(r1))} but rotate_euler(roll, pitch, yaw, 'zyx') = {W.fmt(W.cart(r2))}"
            return None

        law("nautical_equals_euler_zyx", "nautical", f_naut, {"spelling": "rotate_nautical", "angles": [phi, theta, psi]})
        proper(lambda o, args=args: o.rotate_nautical(*args), Rn, "rotate_nautical", {"spelling": "rotate_nautical", "angles": [phi, theta, psi]})


def _vectors(dim, tier):
    if dim == 4:
        vs = [x for x in A.vectors4(tier, kinds=("timelike", "spacelike", "negtime"))]
        return vs if tier == "thorough" else A.representatives(vs, (len(vs) + 3) // 4)
    vs = A.vectors(dim, tier)
    return vs if tier == "thorough" or dim == 2 else A.representatives(vs, (len(vs) + 1) // 2)


def run_shard(shard, tier):
    res = Result()
    dim, vsys, layer = shard["dim"], tuple(shard["vsys"]), shard["layer"]
    ws = A.partners(dim, tier)
    vs = _vectors(dim, tier)
    for i, v in enumerate(vs):
        run_laws(res, layer, v, vsys, ws[i % len(ws)], tier)
    res.sample({"dim": dim, "vsys": list(vsys), "layer": layer, "vectors": len(vs), "example_v": list(vs[0].comps)})
    return res


def replay(case):
    res = Result()
    v = Vec("v", case["v"], set())
    w = Vec("w", case["w"], set())
    run_laws(res, case["layer"], v, tuple(case["vsys"]), w, "thorough", only=case.get("law"))
    return res
