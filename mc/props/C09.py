"""C09 — boosts are Lorentz transformations with the documented relations.

Metamorphic laws, all evaluated through public methods on 60-digit object vectors (and
on float64 object vectors for the well-conditioned strata), for every coordinate system
of the boosted vector x every coordinate system of the booster x the 4D alphabet
(time-like, near-light-cone, space-like, negative-time) x the velocity alphabets.
"""

from __future__ import annotations

import math

import mpmath
from mpmath import mpf

from .. import alphabet as A
from .. import lattice as L
from .. import laws as W
from .. import model as G
from .. import sweep as S
from ..alphabet import Vec
from ..result import Result

ID = "C09"
RULE = (
    "cases = law x coordinate system of the boosted vector x coordinate system of the booster x boosted vector x booster / velocity x layer; "
    "non-trivial = operands and the exact boosted vectors are representable in the systems involved and both sides of the law were computed through the "
    "implementation and compared; distinct = distinct (law, systems, operands, velocity, layer)"
)
ASSUMPTIONS = [
    "laws are checked to 1e-40 (relative to the boosted scale gamma*|v|) at 60 digits, and to 1e-9 in float64 on the well-conditioned strata (|beta| <= 0.97, no near-axis / near-light-cone operands)",
    "boosters are forward time-like 4-vectors or velocities with |beta| < 1; nothing is asserted for |beta| >= 1",
    "a law instance is skipped (and counted) when an exact intermediate is not representable in the system it is returned in (negative time for tau storage, on the axis for theta/eta storage); M_geo is used only to decide that",
]
CAP_S = {"quick": 1200, "thorough": 5400}
AX = {"X": 0, "Y": 1, "Z": 2}


def bounds(tier):
    return {"tier": tier, "boosted_systems": 12, "booster_systems": "12 (p4) / 6 (beta3)", "vectors_4D": len(_vectors(tier)),
            "p4_boosters": len(S._booster_p4(tier)), "beta3_boosters": len(S._beta3_partners(tier)),
            "betas": A.BETAS_T if tier == "thorough" else A.BETAS_Q, "layers": ["L1 (60 digits)", "L2 (float64, well-conditioned)"]}


def _vectors(tier):
    vs = A.vectors4(tier)
    return vs if tier == "thorough" else A.representatives(vs, (len(vs) + 1) // 2)


def shards(tier):
    return [{"vsys": list(s), "layer": layer} for s in L.SYSTEMS[4] for layer in ("L1", "L2")]


def _gamma_of(b2):
    return 1 / mpmath.sqrt(1 - b2)


def _boost_exact(g, beta3):
    return G.apply(G.boost_matrix(beta3), g)


def _well(v: Vec):
    return not (v.has("near_axis") or v.has("fast") or v.has("boundary"))


def run_laws(res: Result, layer, v: Vec, vsys, w: Vec, tier, only=None):
    """All laws for one boosted vector in one system."""
    n = lambda x: W.num(layer, x)  # noqa: E731
    gv, gw = v.mp(), w.mp()
    vdesc = {"v": list(v.comps), "vsys": list(vsys), "w": list(w.comps), "layer": layer}

    def law(name, ctx, fn, case):
        if only is not None and only != name:
            return
        res.states += 1
        cls = f"{name}|{L.sysname(vsys)}|{ctx}|{_stratum(v)}|{layer}"
        try:
            res.transitions += 1
            msg = fn()
        except W.Skip:
            res.count("skipped_not_representable")
            return
        except Exception as e:  # noqa: BLE001
            res.violation(cls + "|raises", f"{name}: {type(e).__name__}: {e}", dict(vdesc, law=name, **case))
            return
        res.traces += 1
        res.evaluations += 1
        if msg is None:
            res.nontrivial += 1
        else:
            res.violation(cls, f"{name}: {msg}", dict(vdesc, law=name, **case))

    def need(g, beta3, system, scale):
        W.need_repr(_boost_exact(g, beta3), system, scale, layer)

    wsys_list = [L.CART[4], tuple(vsys)]

    # ---------------------------------------------------------------- velocity boosts
    for bsys in L.SYSTEMS[3]:
        for b in S._beta3_partners(tier):
            gb = b.mp()
            b2 = sum(c * c for c in gb)
            if layer == "L2" and (b2 > 0.94 or not _well(v)):
                continue
            gam = _gamma_of(b2)
            scale = W.scale_of(v, w) * gam * gam
            case = {"booster": list(b.comps), "bsys": list(bsys), "kind": "beta3"}
            ctx = f"beta3:{L.sysname(bsys)}"

            def f_dot():
                V, B = W.mk(layer, v, vsys), W.mk(layer, b, bsys)
                need(gv, gb, vsys, scale)
                bv = V.boost_beta3(B)
                for wsys in wsys_list:
                    Wv = W.mk(layer, w, wsys)
                    need(gw, gb, wsys, scale)
                    bw = Wv.boost_beta3(B)
                    lhs, rhs = bv.dot(bw), V.dot(Wv)
                    if not W.close(lhs, rhs, scale, layer):
                        return f"B(v).B(w) = {mpmath.nstr(W.sc(lhs), 20)} but v.w = {mpmath.nstr(W.sc(rhs), 20)} (w stored as {L.sysname(wsys)})"
                # proper time preserved
                if not W.close(bv.tau, V.tau, mpmath.sqrt(scale), layer) and representable_tau(gv, layer):
                    return f"tau changed: {mpmath.nstr(W.sc(V.tau), 20)} -> {mpmath.nstr(W.sc(bv.tau), 20)}"
                return None

            def f_inverse():
                V, B = W.mk(layer, v, vsys), W.mk(layer, b, bsys)
                need(gv, gb, vsys, scale)
                back = V.boost_beta3(B).boost_beta3(B.neg3D)
                back2 = V.boost_beta3(B).boost_beta3(-B)
                for r in (back, back2):
                    if not W.vclose(W.cart(r), W.cart(V), scale, layer):
                        return f"opposite boost gives {W.fmt(W.cart(r))}, started from {W.fmt(W.cart(V))}"
                return None

            def f_dispatch():
                V, B = W.mk(layer, v, vsys), W.mk(layer, b, bsys)
                need(gv, gb, vsys, scale)
                a1, a2 = V.boost_beta3(B), V.boost(B)
                if L.system_of(a1) != L.system_of(a2) or type(a1) is not type(a2):
                    return f"boost(beta3) = {a2!r} but boost_beta3 = {a1!r}"
                ngb = tuple(-c for c in gb)
                need(gv, ngb, vsys, scale)
                c1, c2 = V.boostCM_of_beta3(B), V.boostCM_of(B)
                if L.system_of(c1) != L.system_of(c2) or type(c1) is not type(c2):
                    return f"boostCM_of(beta3) = {c2!r} but boostCM_of_beta3 = {c1!r}"
                if not W.vclose(W.cart(c1), W.cart(V.boost_beta3(B.neg3D)), scale, layer):
                    return "boostCM_of_beta3(b) differs from boost_beta3(-b)"
                return None

            law("minkowski_dot_preserved", ctx, f_dot, case)
            law("opposite_boost_inverts", ctx, f_inverse, case)
            law("boost_dispatches_on_dimension", ctx, f_dispatch, case)

    # ---------------------------------------------------------------- 4-momentum boosts
    for psys in L.SYSTEMS[4]:
        for p in S._booster_p4(tier):
            gp = p.mp()
            gb = tuple(gp[i] / gp[3] for i in range(3))
            b2 = sum(c * c for c in gb)
            if layer == "L2" and (b2 > 0.94 or not _well(v) or not _well(p)):
                continue
            gam = _gamma_of(b2)
            scale = W.scale_of(v, w, p) * gam * gam
            case = {"booster": list(p.comps), "bsys": list(psys), "kind": "p4"}
            ctx = f"p4:{L.sysname(psys)}"

            def f_dot4():
                V, P = W.mk(layer, v, vsys), W.mk(layer, p, psys)
                need(gv, gb, vsys, scale)
                bv = V.boost_p4(P)
                Wv = W.mk(layer, w, L.CART[4])
                bw = Wv.boost_p4(P)
                lhs, rhs = bv.dot(bw), V.dot(Wv)
                if not W.close(lhs, rhs, scale, layer):
                    return f"B(v).B(w) = {mpmath.nstr(W.sc(lhs), 20)} but v.w = {mpmath.nstr(W.sc(rhs), 20)}"
                return None

            def f_p4_beta3():
                V, P = W.mk(layer, v, vsys), W.mk(layer, p, psys)
                need(gv, gb, vsys, scale)
                a1 = V.boost_p4(P)
                a2 = V.boost_beta3(P.to_beta3())
                a3 = V.boost(P)
                if not W.vclose(W.cart(a1), W.cart(a2), scale, layer):
                    return f"boost_p4(p) = {W.fmt(W.cart(a1))} but boost_beta3(p.to_beta3()) = {W.fmt(W.cart(a2))}"
                if L.system_of(a1) != L.system_of(a3) or type(a1) is not type(a3):
                    return f"boost(p4) = {a3!r} but boost_p4 = {a1!r}"
                return None

            def f_inverse4():
                V, P = W.mk(layer, v, vsys), W.mk(layer, p, psys)
                need(gv, gb, vsys, scale)
                back = V.boost_p4(P).boost_p4(P.neg3D)
                if not W.vclose(W.cart(back), W.cart(V), scale, layer):
                    return f"boost_p4(p.neg3D) after boost_p4(p) gives {W.fmt(W.cart(back))}, started from {W.fmt(W.cart(V))}"
                ngb = tuple(-c for c in gb)
                need(gv, ngb, vsys, scale)
                c1, c2, c3 = V.boostCM_of_p4(P), V.boost_p4(P.neg3D), V.boostCM_of(P)
                if not W.vclose(W.cart(c1), W.cart(c2), scale, layer):
                    return "boostCM_of_p4(p) differs from boost_p4(p.neg3D)"
                if L.system_of(c1) != L.system_of(c3) or type(c1) is not type(c3):
                    return f"boostCM_of(p4) = {c3!r} but boostCM_of_p4 = {c1!r}"
                return None

            law("minkowski_dot_preserved", ctx, f_dot4, case)
            law("boost_p4_equals_boost_beta3_of_to_beta3", ctx, f_p4_beta3, case)
            law("opposite_boost_inverts", ctx, f_inverse4, case)

    # ---------------------------------------------------------------- axis boosts
    betas = A.BETAS_T if tier == "thorough" else A.BETAS_Q + [0.96875]
    for axn, ai in AX.items():
        for be in betas:
            if layer == "L2" and (abs(be) > 0.97 or not _well(v)):
                continue
            bexact = mpf(be)
            gam = _gamma_of(bexact * bexact)
            scale = W.scale_of(v, w) * gam * gam
            gb = [mpf(0)] * 3
            gb[ai] = bexact
            gb = tuple(gb)
            case = {"axis": axn, "beta": be, "kind": "axis"}
            ctx = f"boost{axn}"
            meth = f"boost{axn}"

            def f_axis_spellings():
                V = W.mk(layer, v, vsys)
                need(gv, gb, vsys, scale)
                a1 = getattr(V, meth)(beta=n(be))
                comps = [0.0, 0.0, 0.0]
                comps[ai] = be
                for bsys in L.SYSTEMS[3]:
                    if bsys[1] in ("theta", "eta") and ai == 2:
                        continue  # a velocity along z is on the axis: not representable with theta/eta
                    try:
                        Bv = W.mk(layer, Vec("ax", comps, set()), bsys)
                    except W.Skip:
                        continue
                    a2 = V.boost_beta3(Bv)
                    if not W.vclose(W.cart(a1), W.cart(a2), scale, layer):
                        return f"{meth}(beta={be}) = {W.fmt(W.cart(a1))} but boost_beta3 along {axn} (stored {L.sysname(bsys)}) = {W.fmt(W.cart(a2))}"
                g = gam if be >= 0 else -gam
                a3 = getattr(V, meth)(gamma=g if layer == "L1" else float(g))
                tol_scale = scale * (gam * gam if layer == "L2" else 1)
                if be != 0 and not W.vclose(W.cart(a1), W.cart(a3), tol_scale, layer):
                    return f"{meth}(beta={be}) = {W.fmt(W.cart(a1))} but {meth}(gamma={mpmath.nstr(g, 12)}) = {W.fmt(W.cart(a3))}"
                return None

            def f_axis_dot_inverse():
                V = W.mk(layer, v, vsys)
                need(gv, gb, vsys, scale)
                a1 = getattr(V, meth)(beta=n(be))
                Wv = W.mk(layer, w, L.CART[4])
                bw = getattr(Wv, meth)(beta=n(be))
                lhs, rhs = a1.dot(bw), V.dot(Wv)
                if not W.close(lhs, rhs, scale, layer):
                    return f"B(v).B(w) = {mpmath.nstr(W.sc(lhs), 20)} but v.w = {mpmath.nstr(W.sc(rhs), 20)}"
                back = getattr(a1, meth)(beta=n(-be))
                if not W.vclose(W.cart(back), W.cart(V), scale, layer):
                    return f"{meth}(beta={-be}) after {meth}(beta={be}) gives {W.fmt(W.cart(back))}, started from {W.fmt(W.cart(V))}"
                return None

            law("axis_boost_spellings_agree", ctx, f_axis_spellings, case)
            law("axis_boost_preserves_dot_and_inverts", ctx, f_axis_dot_inverse, case)
            for be2 in betas[:2]:
                if layer == "L2" and abs(be2) > 0.97:
                    continue
                b2x = mpf(be2)
                comb = (bexact + b2x) / (1 + bexact * b2x)
                gb2 = [mpf(0)] * 3
                gb2[ai] = comb
                gb2 = tuple(gb2)
                gamc = _gamma_of(comb * comb)
                scale2 = W.scale_of(v) * gam * gam * _gamma_of(b2x * b2x) ** 2 * gamc

                def f_compose():
                    V = W.mk(layer, v, vsys)
                    need(gv, gb, vsys, scale2)
                    need(gv, gb2, vsys, scale2)
                    a = getattr(getattr(V, meth)(beta=n(be)), meth)(beta=n(be2))
                    c = getattr(V, meth)(beta=comb if layer == "L1" else float(comb))
                    if not W.vclose(W.cart(a), W.cart(c), scale2, layer):
                        return f"{meth}({be2}) o {meth}({be}) = {W.fmt(W.cart(a))} but {meth}((b1+b2)/(1+b1 b2)) = {W.fmt(W.cart(c))}"
                    return None

                law("velocity_addition", ctx, f_compose, dict(case, beta2=be2))

    # ---------------------------------------------------------------- centre of mass of the vector itself
    if v.has("forward_timelike") and not (layer == "L2" and not _well(v)):
        tau = G.tau_of(gv)
        scale = W.scale_of(v) * (gv[3] / tau) ** 2
        case = {"kind": "cm"}

        def f_cm():
            V = W.mk(layer, v, vsys)
            outs = {"boostCM_of_p4(v)": V.boostCM_of_p4(V), "boostCM_of(v)": V.boostCM_of(V), "boostCM_of_beta3(v.to_beta3())": V.boostCM_of_beta3(V.to_beta3())}
            for name, r in outs.items():
                xs = [W.sc(r.x), W.sc(r.y), W.sc(r.z), W.sc(r.t)]
                tol = W.TOL[layer] * scale
                if any(abs(c) > tol for c in xs[:3]):
                    return f"{name} has spatial part {W.fmt(xs[:3])}, expected 0"
                if abs(xs[3] - tau) > tol:
                    return f"{name} has time component {mpmath.nstr(xs[3], 20)}, expected tau = {mpmath.nstr(tau, 20)}"
            return None

        law("boostCM_of_itself_is_at_rest", "self", f_cm, case)

    # ---------------------------------------------------------------- dimension errors
    def f_typeerr():
        V = W.mk(layer, v, vsys)
        two = W.mk(layer, Vec("two", (0.25, -0.125), set()), ("xy",))
        for name in ("boost", "boostCM_of", "boost_p4", "boost_beta3", "boostCM_of_p4", "boostCM_of_beta3"):
            try:
                getattr(V, name)(two)
            except TypeError:
                continue
            return f"{name}(2D vector) did not raise TypeError"
        three = W.mk(layer, Vec("b", (0.25, -0.125, 0.5), set()), ("xy", "z"))
        for name, arg in (("boost_p4", three), ("boostCM_of_p4", three), ("boost_beta3", V), ("boostCM_of_beta3", V)):
            try:
                getattr(V, name)(arg)
            except TypeError:
                continue
            return f"{name}({arg.__class__.__name__}) did not raise TypeError"
        for name in ("boostX", "boostY", "boostZ"):
            for kw in ({}, {"beta": n(0.5), "gamma": n(2.0)}):
                try:
                    getattr(V, name)(**kw)
                except TypeError:
                    continue
                return f"{name}({kw}) did not raise TypeError"
        return None

    law("wrong_dimension_rejected", "typeerror", f_typeerr, {"kind": "typeerror"})

    # ---------------------------------------------------------------- the zero boost is the identity (velocity 0, booster at rest, gamma 1)
    zero3 = Vec("zero3", (0.0, 0.0, 0.0), {"zero"})
    rest4 = Vec("rest4", (0.0, 0.0, 0.0, 2.5), {"at_rest"})
    scale0 = W.scale_of(v, w)
    spellings = []
    for zs in (("xy", "z"), ("rhophi", "z")):
        spellings += [(f"boost_beta3(0)[{L.sysname(zs)}]", lambda V, zs=zs: V.boost_beta3(W.mk(layer, zero3, zs))), (f"boost(0 velocity)[{L.sysname(zs)}]", lambda V, zs=zs: V.boost(W.mk(layer, zero3, zs))),
                      (f"boostCM_of_beta3(0)[{L.sysname(zs)}]", lambda V, zs=zs: V.boostCM_of_beta3(W.mk(layer, zero3, zs)))]
    for rs in (("xy", "z", "t"), ("xy", "z", "tau"), ("rhophi", "z", "t"), ("rhophi", "z", "tau")):
        spellings += [(f"boost_p4(at rest)[{L.sysname(rs)}]", lambda V, rs=rs: V.boost_p4(W.mk(layer, rest4, rs))), (f"boost(at rest)[{L.sysname(rs)}]", lambda V, rs=rs: V.boost(W.mk(layer, rest4, rs))),
                      (f"boostCM_of_p4(at rest)[{L.sysname(rs)}]", lambda V, rs=rs: V.boostCM_of_p4(W.mk(layer, rest4, rs)))]
    for ax in "XYZ":
        spellings += [(f"boost{ax}(beta=0)", lambda V, ax=ax: getattr(V, "boost" + ax)(beta=n(0.0))), (f"boost{ax}(gamma=1)", lambda V, ax=ax: getattr(V, "boost" + ax)(gamma=n(1.0)))]
    for sname, fn_ in spellings:
        def f_id(fn_=fn_):
            V = W.mk(layer, v, vsys)
            r = fn_(V)
            if not W.vclose(W.cart(r), W.cart(V), scale0, layer):
                return f"the result {[mpmath.nstr(W.sc(c), 17) for c in W.cart(r)]} is not the boosted vector itself {[mpmath.nstr(W.sc(c), 17) for c in W.cart(V)]}"
            return None

        law("zero_boost_is_identity", sname, f_id, {"kind": "identity", "spelling": sname})


def representable_tau(g, layer):
    return g[3] >= 0


def _stratum(v: Vec):
    for k in ("negtime", "spacelike_tltz", "spacelike", "fast", "timelike"):
        if v.has(k):
            return k + ("+near_axis" if v.has("near_axis") else "")
    return "generic"


def tau_kept(res: Result, vsys, tier):
    """Proper time of light-like and ultra-relativistic vectors *stored with tau* (tau = 0 exactly, tau = 2^-12 next to |p| ~ 1e3):
    after every boost spelling the result's tau is the stored tau (to 1e-9 of max(tau, 1e-9 |p|)); recomputing it from the boosted
    components would lose it to cancellation."""
    from ..mplib import OBJ_CLASS

    if vsys[2] != "tau":
        return
    spatial = [v for v in A.vectors3("quick") if v.has("generic") and not v.has("near_axis") and not v.has("wildphi") and not v.has("plane")][:3]
    boosters3 = S._beta3_partners("quick")[:2]
    boosters4 = S._booster_p4("quick")[:2]
    for sv in spatial:
        big = A.Vec("big", tuple(c * 1024.0 for c in sv.comps), {"generic"})
        sp = S.stored(big, vsys[:2])
        if sp is None:
            continue
        pmag = math.sqrt(sum(c * c for c in big.comps))
        for tau in (0.0, 2.0**-12):
            st = tuple(float(x) for x in sp) + (tau,)
            spellings = [(f"boost{ax}(beta={b})", lambda V, ax=ax, b=b: getattr(V, "boost" + ax)(beta=b)) for ax in "XYZ" for b in (0.5, -0.25)]
            spellings += [(f"boost{ax}(gamma={g})", lambda V, ax=ax, g=g: getattr(V, "boost" + ax)(gamma=g)) for ax in "XYZ" for g in (3.0, -2.5)]
            for b3 in boosters3:
                B3 = L.build_object(OBJ_CLASS[("generic", 3)], L.CART[3], tuple(float(c) for c in b3.comps))
                spellings += [("boost_beta3", lambda V, B3=B3: V.boost_beta3(B3)), ("boost(3D)", lambda V, B3=B3: V.boost(B3))]
            for b4 in boosters4:
                B4 = L.build_object(OBJ_CLASS[("generic", 4)], L.CART[4], tuple(float(c) for c in b4.comps))
                spellings += [("boost_p4", lambda V, B4=B4: V.boost_p4(B4)), ("boost(4D)", lambda V, B4=B4: V.boost(B4))]
            for sname, fn_ in spellings:
                for flavor in ("generic", "momentum"):
                    res.states += 1
                    res.transitions += 1
                    res.evaluations += 1
                    res.traces += 1
                    V = L.build_object(OBJ_CLASS[(flavor, 4)], vsys, st)
                    case = {"kind": "tau_kept", "vsys": list(vsys), "stored": list(st), "spelling": sname, "flavor": flavor, "layer": "L2"}
                    cls = f"tau_kept|{L.sysname(vsys)}|{sname.split('(')[0]}|{'lightlike' if tau == 0 else 'ultrarelativistic'}"
                    try:
                        r = fn_(V)
                        rt = float(r.tau)
                    except Exception as e:  # noqa: BLE001
                        res.violation(cls + "|raises", f"{sname} raised {type(e).__name__}: {e}", case)
                        continue
                    if not abs(rt - tau) <= 1e-9 * max(tau, 1e-9 * pmag):
                        res.violation(cls, f"{sname} of a vector stored with tau = {tau!r} (|p| = {pmag:.6g}) has tau = {rt!r}", case)
                    else:
                        res.nontrivial += 1


def run_shard(shard, tier):
    res = Result()
    vsys = tuple(shard["vsys"])
    layer = shard["layer"]
    if layer == "L2":
        tau_kept(res, vsys, tier)
    ws = A.partners(4, tier)
    for i, v in enumerate(_vectors(tier)):
        w = ws[i % len(ws)]
        run_laws(res, layer, v, vsys, w, tier)
    res.sample({"vsys": list(vsys), "layer": layer, "vectors": len(_vectors(tier)), "example_v": list(_vectors(tier)[0].comps)})
    return res


def replay(case):
    res = Result()
    if case.get("kind") == "tau_kept":
        tau_kept(res, tuple(case["vsys"]), "quick")
        return res
    comps = case["v"]
    tags = set()
    x, y, z, t = comps
    m2 = x * x + y * y + z * z
    if t > 0 and t * t > m2:
        tags.update({"forward_timelike", "timelike"})
    v = Vec("v", comps, tags)
    w = Vec("w", case["w"], set())
    run_laws(res, case["layer"], v, tuple(case["vsys"]), w, "thorough", only=case.get("law"))
    return res
