"""C13 — ranges, sign conventions and classification predicates.

Exhaustive over accessors/predicates x all coordinate systems x the *full* alphabet
including every boundary stratum x tolerance alphabet, on float64 object vectors and
NumPy arrays (exact range/sign/iff checks: this is where nan_to_num, copysign, clamps and
% live) and on 60-digit vectors (regular strata).
"""

from __future__ import annotations

import itertools
import math

import mpmath
import numpy as np
import vector  # noqa: E402 (bound by mc.env before the property modules are imported)
from mpmath import mpf

from .. import alphabet as A
from .. import build as B
from .. import lattice as L
from .. import model as G
from .. import sweep as S
from ..alphabet import Vec
from ..result import Result

ID = "C13"
RULE = (
    "cases = clause x accessor/predicate x coordinate system(s) x backend (float64 object, NumPy array, 60-digit object) x operand (full alphabet incl. "
    "axis-aligned, zero, +-pi azimuth, light-like, t=0, negative-time strata) x tolerance; non-trivial = the clause's premise holds for the operand "
    "(e.g. forward time-like for the beta/gamma clause; a pair at least a factor 2 away from the decision boundary for the angle predicates) and the "
    "value was checked; distinct = distinct (clause, accessor, system, backend, operand, tolerance)"
)
ASSUMPTIONS = [
    "ranges are checked exactly in float64 (phi, deltaphi within [-pi, pi]; theta, deltaangle within [0, pi]; non-negativity; signs)",
    "beta == 1 for light-like vectors is demanded exactly for x,y,z,t / rho,phi,z,t storage of an exactly light-like (Pythagorean) vector and within 4 ulp when mag is itself rounded (theta/eta storage)",
    "classification must follow the sign of t^2 - mag^2 only when |t^2 - mag^2| exceeds the tolerance by a rounding margin; non-overlap for a common tolerance is demanded always",
    "angle predicates are decided only on pairs whose cosine is at least a factor 2 away from the decision boundary; zero vectors excluded",
    "NaN operands are outside the property",
    "an azimuth the caller *stored* outside [-pi, pi] is returned as stored by the phi accessor of rho-phi systems (identity accessor); the range clause is demanded for every derived phi and for deltaphi, including for such operands",
]
CAP_S = {"quick": 900, "thorough": 3600}
PI = math.pi
TOLS = [0.0, 1e-5, 0.25]


def bounds(tier):
    return {"tier": tier, "systems": "all 2/6/12 (36/144 pairs for binary clauses: diagonal+cross in quick, all in thorough)", "tolerances": TOLS,
            "backends": ["float64 object", "NumPy array", "60-digit object (regular strata)"]}


def _vectors(dim, tier):
    vs = A.vectors(dim, tier, boundary=True)
    if dim == 2:
        vs = vs + [Vec("negx_negzero", (-0.75, -0.0), {"boundary", "on_axis2"})]
    if dim == 3:
        vs = vs + [Vec("negx_negzero", (-0.75, -0.0, 0.5), {"boundary"})]
    return vs


def shards(tier):
    out = []
    for dim in (2, 3, 4):
        for sysA in L.SYSTEMS[dim]:
            out.append({"kind": "unary", "dim": dim, "sys": list(sysA)})
    for dim in (2, 3, 4):
        for sysA in L.SYSTEMS[dim]:
            out.append({"kind": "binary", "dim": dim, "sys": list(sysA)})
    for sysA in L.SYSTEMS[4]:
        out.append({"kind": "taustored", "dim": 4, "sys": list(sysA)})
    for dim in (2, 3, 4):
        for sysA in L.SYSTEMS[dim]:
            out.append({"kind": "derived", "dim": dim, "sys": list(sysA)})
    for sysA in L.SYSTEMS[3]:
        out.append({"kind": "sweep", "dim": 3, "sys": list(sysA)})
    return out


# --------------------------------------------------------------------------------------
def _viol(res, clause, acc, system, backend, msg, case):
    res.violation(f"{clause}|{acc}|{L.sysname(system)}|{backend}", msg, case)


def _in(x, lo, hi):
    return (not math.isnan(x)) and lo <= x <= hi


def _float_obj(v: Vec, system, flavor="generic"):
    obj, st = S.build_float(v, system, flavor)
    return obj, st


def _np_single(v: Vec, system):
    s = S.stored(v, system)
    if s is None:
        return None
    return B.make_np(system, "generic", [tuple(float(x) for x in s)])


def unary_checks(res, v: Vec, system, tier):
    dim = v.dim
    case = {"kind": "unary", "v": list(v.comps), "sys": list(system), "name": v.name}
    obj, st = _float_obj(v, system)
    if obj is None:
        res.count("operand_not_representable")
        return
    g = G.from_stored(system, st)  # exact vector denoted by the rounded stored values
    backends = [("OBJ", obj, lambda x: float(x))]
    arr = _np_single(v, system)
    backends.append(("NP", arr, lambda x: float(np.asarray(x).reshape(-1)[0])))
    mpo = S.build_mp(v, system, "generic")
    if mpo is not None and not v.has("boundary"):
        backends.append(("MP", mpo, lambda x: x))
    for bname, o, conv in backends:
        res.states += 1
        pi = PI if bname != "MP" else G.PI

        class _Skip(Exception):
            pass

        def get(name):
            res.transitions += 1
            try:
                return conv(getattr(o, name))
            except Exception as e:  # noqa: BLE001
                _viol(res, "raises", name, system, bname, f"{name} raised {type(e).__name__}: {e} for {v.name}", dict(case, backend=bname, accessor=name))
                raise _Skip from None

        def chk(clause, acc, ok, msg):
            res.traces += 1
            res.evaluations += 1
            if ok:
                res.nontrivial += 1
            else:
                _viol(res, clause, acc, system, bname, msg, dict(case, backend=bname, accessor=acc))

        try:
            # (a) phi in [-pi, pi]
            try:
                phi = get("phi")
                if v.has("wildphi") and system[0] == "rhophi":
                    res.count("stored_phi_outside_range_is_returned_as_stored")  # the accessor of a stored coordinate is the identity: the range clause is about derived azimuths
                else:
                    chk("range", "phi", -pi <= phi <= pi, f"phi = {phi!r} outside [-pi, pi]")
            except _Skip:
                pass
            # (c) non-negative quantities
            for acc in ("rho", "rho2") + (("mag", "mag2") if dim >= 3 else ()) + (("t2",) if dim == 4 else ()):
                try:
                    x = get(acc)
                    chk("nonneg", acc, x >= 0, f"{acc} = {x!r} is negative or NaN")
                except _Skip:
                    pass
            if dim >= 3:
                # (b) theta in [0, pi]
                zero3 = v.comps[0] == 0 and v.comps[1] == 0 and v.comps[2] == 0
                th = get("theta")
                if not zero3:
                    chk("range", "theta", 0 <= th <= pi, f"theta = {th!r} outside [0, pi]")
                # (d) costheta, cottheta have the sign of z (z != 0 exactly representable and not the zero vector)
                z = v.comps[2]
                if z != 0:
                    for acc in ("costheta", "cottheta"):
                        try:
                            x = get(acc)
                            chk("sign", acc, (x > 0) == (z > 0) and x != 0, f"{acc} = {x!r} does not have the sign of z = {z}")
                        except _Skip:
                            pass
            if dim == 4:
                x, y, z, t = v.comps
                m2 = x * x + y * y + z * z
                tau2_exact = G.tau2(g) if g is not None else None
                if system[2] == "t" and tau2_exact is not None:
                    # (f) tau derived from t negative exactly for space-like vectors
                    ta = get("tau")
                    margin = mpf(2) ** -40 * max(1, m2, t * t)
                    if tau2_exact < -margin:
                        chk("tau_sign", "tau", ta < 0, f"tau = {ta!r} is not negative for a space-like vector (t^2-mag^2 = {mpmath.nstr(tau2_exact, 8)})")
                    elif tau2_exact > margin:
                        chk("tau_sign", "tau", ta > 0, f"tau = {ta!r} is not positive for a time-like vector")
                if system[2] == "tau":
                    # (e) t derived from tau is non-negative and never NaN
                    tt = get("t")
                    chk("t_from_tau", "t", tt >= 0, f"t = {tt!r} derived from tau is negative or NaN")
                # (g) forward time-like => 0 <= beta < 1, gamma >= 1 ; light-like => beta == 1
                if v.has("forward_timelike") and tau2_exact is not None and tau2_exact > 0:
                    be, ga = get("beta"), get("gamma")
                    chk("beta_gamma", "beta", 0 <= be < 1, f"beta = {be!r} not in [0, 1) for a forward time-like vector")
                    chk("beta_gamma", "gamma", ga >= 1, f"gamma = {ga!r} < 1 for a forward time-like vector")
                if v.has("lightlike") and bname != "MP":
                    be = get("beta")
                    rho_exact = system[0] == "xy" or float(st[0]) ** 2 == v.comps[0] ** 2 + v.comps[1] ** 2
                    if system[1] == "z" and system[2] == "t" and rho_exact:
                        chk("beta_light", "beta", be == 1.0, f"beta = {be!r} != 1 for an exactly light-like vector")
                    elif system[2] == "t":
                        chk("beta_light", "beta", abs(be - 1.0) <= 4 * 2.0**-52, f"beta = {be!r} not within 4 ulp of 1 for a light-like vector")
                # (h) classification with a common tolerance
                for T in TOLS:
                    res.transitions += 3
                    tl, ll, sl = bool(conv(o.is_timelike(T))), bool(conv(o.is_lightlike(T))), bool(conv(o.is_spacelike(T)))
                    chk("classify_overlap", f"tol={T}", tl + ll + sl <= 1, f"is_timelike/is_lightlike/is_spacelike = {tl}/{ll}/{sl} overlap for tolerance {T}")
                    if tau2_exact is not None:
                        margin = 2 * T + 1e-9 * max(1.0, m2, t * t)
                        if abs(tau2_exact) > margin:
                            want = (tau2_exact > 0, False, tau2_exact < 0)
                            chk("classify_sign", f"tol={T}", (tl, ll, sl) == want, f"(timelike, lightlike, spacelike) = {(tl, ll, sl)} but t^2-mag^2 = {mpmath.nstr(tau2_exact, 8)} with tolerance {T}")
                        elif abs(tau2_exact) * 2 < T:
                            chk("classify_sign", f"tol={T}", (tl, ll, sl) == (False, True, False), f"(timelike, lightlike, spacelike) = {(tl, ll, sl)} but |t^2-mag^2| = {mpmath.nstr(abs(tau2_exact), 8)} is well inside tolerance {T}")
        except _Skip:
            pass
        except Exception as e:  # noqa: BLE001
            _viol(res, "raises", "accessor", system, bname, f"{type(e).__name__}: {e}", dict(case, backend=bname))
    res.sample(case) if v.name in ("light0", "zero") and system == L.SYSTEMS[dim][-1] else None


def _derived_ops(dim, system):
    ops = [("scale(-0.5)", lambda v, p: v.scale(-0.5)), ("scale(2)", lambda v, p: v.scale(2.0)), ("neg", lambda v, p: -v), ("*(-3)", lambda v, p: v * -3.0), ("/(-2)", lambda v, p: v / -2.0),
           ("rotateZ(4)", lambda v, p: v.rotateZ(4.0)), ("rotateZ(-7)", lambda v, p: v.rotateZ(-7.0)), ("add", lambda v, p: v.add(p)), ("subtract", lambda v, p: v.subtract(p)),
           ("p.subtract(v)", lambda v, p: p.subtract(v)), ("unit", lambda v, p: v.unit()), ("to_own", lambda v, p: getattr(v, "to_" + "".join(L.field_names(system)))()),
           ("to_other_azimuth", lambda v, p: getattr(v, "to_" + "".join(L.field_names((("rhophi" if system[0] == "xy" else "xy"),) + tuple(system[1:]))))())]
    if dim >= 3:
        ops += [("rotateX(-2.5)", lambda v, p: v.rotateX(-2.5)), ("rotateY(4)", lambda v, p: v.rotateY(4.0)), ("rotate_euler", lambda v, p: v.rotate_euler(0.3125, -2.5, 4.0, "yzx")),
                ("rotate_axis", lambda v, p: v.rotate_axis(p.to_Vector3D(), 4.0)), ("cross", lambda v, p: v.to_Vector3D().cross(p.to_Vector3D()))]
        for lon in ("z", "theta", "eta"):
            ops.append((f"to_*{lon}*", lambda v, p, lon=lon: getattr(v, "to_" + "".join(L.field_names((system[0], lon) + tuple(system[2:]))))()))
    if dim == 4:
        ops += [("boostX(0.5)", lambda v, p: v.boostX(0.5)), ("boostZ(-0.25)", lambda v, p: v.boostZ(-0.25)), ("boostY(gamma=-2.5)", lambda v, p: v.boostY(gamma=-2.5)),
                ("boost_p4", lambda v, p: v.boost_p4(p)), ("to_*tau", lambda v, p: getattr(v, "to_" + "".join(L.field_names(tuple(system[:2]) + ("tau",))))()),
                ("to_*t", lambda v, p: getattr(v, "to_" + "".join(L.field_names(tuple(system[:2]) + ("t",))))())]
    return ops


def derived_checks(res, v: Vec, system, tier):
    """The range and sign clauses hold for the vectors the library *returns* too: after each vector-valued operation the
    result's own accessors (and its stored rho / phi / theta) are checked, on the float64 object and NumPy backends."""
    dim = v.dim
    obj, st = _float_obj(v, system)
    if obj is None:
        res.count("operand_not_representable")
        return
    partner = [p for p in A.partners(dim, tier) if not p.has("spacelike") and not p.has("negtime")][0]
    pobj, _ = _float_obj(partner, system)
    arr = _np_single(v, system)
    parr = _np_single(partner, system)
    if pobj is None or parr is None:
        return
    for bname, o, po, conv in (("OBJ", obj, pobj, lambda x: float(x)), ("NP", arr, parr, lambda x: float(np.asarray(x).reshape(-1)[0]))):
        for oname, f in _derived_ops(dim, system):
            res.states += 1
            res.transitions += 1
            case = {"kind": "derived", "v": list(v.comps), "sys": list(system), "name": v.name, "op": oname, "backend": bname}
            try:
                r = f(o, po)
            except Exception as e:  # noqa: BLE001
                res.count("derived_operation_raised")  # singular inputs etc. are other properties' subject
                continue

            def chk(clause, acc, ok, msg):
                res.traces += 1
                res.evaluations += 1
                if ok:
                    res.nontrivial += 1
                else:
                    _viol(res, clause, f"{oname}->{acc}", system, bname, f"after {oname}: {msg}", case)

            def get(name):
                res.transitions += 1
                return conv(getattr(r, name))

            try:
                rdim = 2 + hasattr(r, "longitudinal") + hasattr(r, "temporal")
                rho, phi = get("rho"), get("phi")
                if math.isnan(rho) or math.isnan(phi):
                    res.count("derived_result_nan")
                    continue
                if v.has("wildphi") and system[0] == "rhophi":
                    res.count("stored_phi_outside_range_is_returned_as_stored")  # operations that pass the azimuth through keep what the caller stored
                else:
                    chk("range", "phi", -PI <= phi <= PI, f"phi = {phi!r} outside [-pi, pi]")
                chk("nonneg", "rho", rho >= 0, f"rho = {rho!r} is negative")
                if rdim >= 3:
                    th, z, mag = get("theta"), get("z"), get("mag")
                    if not (math.isnan(th) or math.isnan(z)):
                        chk("range", "theta", 0 <= th <= PI, f"theta = {th!r} outside [0, pi]")
                        chk("nonneg", "mag", mag >= 0, f"mag = {mag!r} is negative")
                        if abs(z) > 1e-9 * max(1.0, mag) and rho > 1e-9 * max(1.0, mag):
                            for acc in ("costheta", "cottheta"):
                                x = get(acc)
                                chk("sign", acc, (x > 0) == (z > 0) and x != 0, f"{acc} = {x!r} does not have the sign of z = {z!r}")
                            eta = get("eta")
                            chk("sign", "eta", (eta > 0) == (z > 0), f"eta = {eta!r} does not have the sign of z = {z!r}")
                if rdim == 4:
                    rs = L.system_of(r)[0] if bname == "OBJ" else B.system_of_fields(r.dtype.names)
                    if rs[2] == "tau":
                        tt = get("t")
                        chk("t_from_tau", "t", tt >= 0, f"t = {tt!r} derived from the result's tau is negative or NaN")
            except Exception as e:  # noqa: BLE001
                _viol(res, "raises", f"{oname}->accessor", system, bname, f"after {oname}: {type(e).__name__}: {e}", case)


def direction_sweep(res, sysA, tier):
    """Exactly parallel and antiparallel pairs over a grid of 2000 directions (all sign patterns, both hemispheres), as NumPy arrays,
    for every storage of the second operand: deltaangle stays a number inside [0, pi] (0 / pi up to rounding), deltaphi inside
    [-pi, pi], and the predicates answer accordingly.  A clamp that is missing shows only for the few percent of directions where
    the rounded cosine overshoots +-1."""
    K, J = (40, 50) if tier != "thorough" else (80, 100)
    th = (np.arange(K) + 0.5) * (math.pi / K)
    ph = (np.arange(J) + 0.37) * (2 * math.pi / J) - math.pi
    T, P = np.meshgrid(th, ph, indexing="ij")
    x, y, z = (1.5 * np.sin(T) * np.cos(P)).ravel(), (1.5 * np.sin(T) * np.sin(P)).ravel(), (1.5 * np.cos(T)).ravel()

    def store(system, cx, cy, cz):
        cols = {}
        if system[0] == "xy":
            cols["x"], cols["y"] = cx, cy
        else:
            cols["rho"], cols["phi"] = np.hypot(cx, cy), np.arctan2(cy, cx)
        rho = np.hypot(cx, cy)
        if system[1] == "z":
            cols["z"] = cz
        elif system[1] == "theta":
            cols["theta"] = np.arctan2(rho, cz)
        else:
            cols["eta"] = np.arcsinh(cz / rho)
        return vector.array(cols)

    a = store(sysA, x, y, z)
    for sysB in L.SYSTEMS[3]:
        for kind, f in (("parallel", 2.0), ("antiparallel", -2.0)):
            b = store(sysB, f * x, f * y, f * z)
            res.states += 1
            res.transitions += 4
            case = {"kind": "sweep", "sys": list(sysA), "sysB": list(sysB), "pair": kind}
            cls = f"sweep|{kind}|{L.sysname(sysA)}|{L.sysname(sysB)}"
            try:
                da = np.asarray(a.deltaangle(b), dtype=np.float64)
                dp = np.asarray(a.deltaphi(b), dtype=np.float64)
                par, anti = np.asarray(a.is_parallel(b, 1e-5)), np.asarray(a.is_antiparallel(b, 1e-5))
            except Exception as e:  # noqa: BLE001
                res.violation(cls + "|raises", f"{type(e).__name__}: {str(e)[:150]}", case)
                continue
            want = 0.0 if kind == "parallel" else math.pi
            checks = [("deltaangle_is_a_number", ~np.isnan(da)), ("deltaangle_in_[0,pi]", (da >= 0) & (da <= math.pi) | np.isnan(da)), ("deltaangle_value", (np.abs(da - want) <= 1e-6) | np.isnan(da)),
                      ("deltaphi_in_[-pi,pi]", (dp >= -math.pi) & (dp <= math.pi)), ("is_parallel", par == (kind == "parallel")), ("is_antiparallel", anti == (kind == "antiparallel"))]
            for cname, ok in checks:
                res.traces += 1
                res.evaluations += 1
                bad = np.flatnonzero(~ok)
                if len(bad):
                    i = int(bad[0])
                    res.violation(f"{cls}|{cname}", f"{len(bad)} of {len(da)} {kind} pairs fail {cname}; e.g. direction theta={float(T.ravel()[i])!r}, phi={float(P.ravel()[i])!r}: deltaangle={float(da[i])!r}, deltaphi={float(dp[i])!r}, is_parallel={bool(par[i])}, is_antiparallel={bool(anti[i])}", case)
                else:
                    res.nontrivial += 1
    res.sample({"kind": "sweep", "sys": list(sysA), "directions": int(K * J)})


def _angle_pairs(a: Vec, tier):
    """Second operands with cosine in {+-1, 0, +-(1-2^-20), +-2^-20} relative to `a`, plus generic."""
    c = a.comps[:3] if a.dim >= 3 else a.comps
    n = len(c)
    out = []
    if n == 2:
        perp = (-c[1], c[0])
    else:
        perp = (c[1], -c[0], 0.0)
        if perp == (0.0, 0.0, 0.0):
            perp = (c[2], 0.0, -c[0])
    eps = 2.0**-10  # cos = 1 - eps^2/2 ... close to +-1 / 0 but well separated from the tolerance grid
    for name, k, p in (("par", 1.5, 0.0), ("anti", -0.75, 0.0), ("perp", 0.0, 0.5),
                       ("nearpar", 1.0, eps), ("nearanti", -1.0, eps), ("nearperp", eps, 1.0)):
        vec = tuple(k * ci + p * pi for ci, pi in zip(c, perp))
        if a.dim == 4:
            vec = vec + (abs(a.comps[3]) + 1.0,)
        out.append(Vec(name, vec, {name}))
    return out + A.partners(a.dim, tier)


def binary_checks(res, a: Vec, sysA, tier):
    dim = a.dim
    mode = "all" if tier == "thorough" else "diag"
    pairs = [sb for (sa, sb) in L.sig_pairs(dim, dim, mode) if sa == tuple(sysA)]
    if not pairs:
        pairs = [tuple(sysA), L.CART[dim]]
    oa, sta = _float_obj(a, sysA)
    if oa is None:
        res.count("operand_not_representable")
        return
    ga = G.from_stored(sysA, sta)
    zero_a = all(x == 0 for x in a.comps[: min(3, dim)])
    seconds = _angle_pairs(a, tier) if not zero_a else A.partners(dim, tier)
    # deltaphi seam: the opposite vector and the +-pi azimuths
    if dim == 2:
        seconds = seconds + [Vec("opp", tuple(-x for x in a.comps), {"opposite"}), Vec("negx", (-0.75, 0.0), {"boundary"}), Vec("negx_negzero", (-0.75, -0.0), {"boundary"})]
    for b in seconds:
        for sysB in pairs:
            ob, stb = _float_obj(b, sysB)
            if ob is None:
                res.count("operand_not_representable")
                continue
            gb = G.from_stored(sysB, stb)
            case = {"kind": "binary", "a": list(a.comps), "b": list(b.comps), "sysA": list(sysA), "sysB": list(sysB), "bname": b.name}
            bk = [("OBJ", oa, ob, float)]
            bk.append(("NP", _np_single(a, sysA), _np_single(b, sysB), lambda x: float(np.asarray(x).reshape(-1)[0])))
            for bname, va, vb, conv in bk:
                res.states += 1

                def chk(clause, acc, ok, msg):
                    res.traces += 1
                    res.evaluations += 1
                    if ok:
                        res.nontrivial += 1
                    else:
                        res.violation(f"{clause}|{acc}|{L.sysname(sysA)}|{L.sysname(sysB)}|{bname}", msg, dict(case, backend=bname, accessor=acc))

                try:
                    res.transitions += 1
                    dphi = conv(va.deltaphi(vb))
                    zero_b = all(x == 0 for x in b.comps[:2])
                    if not (all(x == 0 for x in a.comps[:2]) or zero_b):
                        chk("range", "deltaphi", -PI <= dphi <= PI, f"deltaphi = {dphi!r} outside [-pi, pi]")
                    if dim >= 3:
                        zb3 = all(x == 0 for x in b.comps[:3])
                        if not zero_a and not zb3:
                            res.transitions += 1
                            da = conv(va.deltaangle(vb))
                            chk("range", "deltaangle", 0 <= da <= PI, f"deltaangle = {da!r} outside [0, pi]")
                    zb = all(x == 0 for x in b.comps[: min(3, dim)])
                    if zero_a or zb or ga is None or gb is None:
                        continue
                    # (i) angle predicates <=> cos within tolerance of +1 / -1 / 0
                    n = min(3, dim)
                    na = mpmath.sqrt(sum(x * x for x in ga[:n]))
                    nb = mpmath.sqrt(sum(x * x for x in gb[:n]))
                    cos = sum(p * q for p, q in zip(ga[:n], gb[:n])) / (na * nb)
                    for T in TOLS + [1.5, 2.5]:  # tolerances are in cosine units: above 1 they are unusual but legitimate
                        for pred, dist in (("is_parallel", 1 - cos), ("is_antiparallel", 1 + cos), ("is_perpendicular", abs(cos))):
                            res.transitions += 1
                            got = bool(conv(getattr(va, pred)(vb, T)))
                            slack = mpf(2) ** -45  # float rounding of dot / magnitudes
                            if dist >= 2 * T + slack:
                                want = False
                            elif dist * 2 <= T - slack:
                                want = True
                            else:
                                res.count("angle_pair_near_decision_boundary")
                                continue
                            chk("angle_pred", f"{pred}|tol={T}", got == want, f"{pred}(tolerance={T}) = {got} but cos = {mpmath.nstr(cos, 12)}")
                except Exception as e:  # noqa: BLE001
                    res.violation(f"raises|binary|{L.sysname(sysA)}|{L.sysname(sysB)}|{bname}", f"{type(e).__name__}: {e}", dict(case, backend=bname))


def taustored_checks(res, system, tier):
    """(e) driven with arbitrary *stored* values, including tau so negative that the stored
    coordinates denote no real vector: t must still be >= 0 and never NaN."""
    if system[2] != "tau":
        return
    base = [v for v in A.vectors3(tier, boundary=True)]
    taus = [0.0, 0.5, -0.5, 3.0, -3.0, -1000.0, 1e-300, -1e-300]
    for v in base:
        sp = S.stored(v, system[:2])
        if sp is None:
            continue
        for tau in taus:
            st = tuple(float(x) for x in sp) + (tau,)
            case = {"kind": "taustored", "sys": list(system), "stored": list(st)}
            for bname in ("OBJ", "NP"):
                res.states += 1
                res.transitions += 2
                res.traces += 2
                res.evaluations += 1
                try:
                    if bname == "OBJ":
                        o = B.make_obj(system, "generic", st)
                        t, t2 = float(o.t), float(o.t2)
                    else:
                        o = B.make_np(system, "generic", [st])
                        t, t2 = float(o.t[0]), float(o.t2[0])
                except Exception as e:  # noqa: BLE001
                    res.violation(f"raises|t|{L.sysname(system)}|{bname}", f"{type(e).__name__}: {e}", case)
                    continue
                if not (t >= 0) or not (t2 >= 0):
                    res.violation(f"t_from_tau|t|{L.sysname(system)}|{bname}", f"t = {t!r}, t2 = {t2!r} derived from stored tau = {tau} (must be >= 0, never NaN)", dict(case, backend=bname))
                else:
                    res.nontrivial += 1


def run_shard(shard, tier):
    res = Result()
    dim = shard["dim"]
    system = tuple(shard["sys"])
    if shard["kind"] == "unary":
        for v in _vectors(dim, tier):
            unary_checks(res, v, system, tier)
        res.sample({"kind": "unary", "sys": list(system), "operands": len(_vectors(dim, tier)), "example": list(_vectors(dim, tier)[-1].comps)})
    elif shard["kind"] == "derived":
        vs = [v for v in _vectors(dim, tier) if not v.has("boundary") and not v.has("near_axis") and not v.has("fast")]
        if tier != "thorough":
            vs = A.representatives(vs, 6)
        for v in vs:
            derived_checks(res, v, system, tier)
        res.sample({"kind": "derived", "sys": list(system), "operands": len(vs), "operations": [n for n, _ in _derived_ops(dim, system)]})
    elif shard["kind"] == "sweep":
        direction_sweep(res, system, tier)
    elif shard["kind"] == "binary":
        vs = [v for v in _vectors(dim, tier) if not v.has("near_axis")]
        if tier != "thorough":
            vs = vs[::2]
        for a in vs:
            binary_checks(res, a, system, tier)
    else:
        taustored_checks(res, system, tier)
    return res


def replay(case):
    res = Result()
    if case["kind"] == "unary":
        v = Vec(case.get("name", "v"), case["v"], _tags_for(case["v"]))
        unary_checks(res, v, tuple(case["sys"]), "quick")
    elif case["kind"] == "derived":
        tags = {"wildphi"} if str(case.get("name", "")).startswith("wild") else set()
        v = Vec(case.get("name", "v"), case["v"], tags, phi_turns={"wild+": 1, "wild-": -1}.get(case.get("name"), 0))
        derived_checks(res, v, tuple(case["sys"]), "thorough")
    elif case["kind"] == "sweep":
        direction_sweep(res, tuple(case["sys"]), "quick")
    elif case["kind"] == "binary":
        a = Vec("a", case["a"], set())
        binary_checks(res, a, tuple(case["sysA"]), "thorough")
        # keep only classes for the recorded second system
    else:
        taustored_checks(res, tuple(case["sys"]), "thorough")
    return res


def _tags_for(comps):
    tags = set()
    if len(comps) == 4:
        x, y, z, t = comps
        m2 = x * x + y * y + z * z
        if t > 0 and t * t > m2:
            tags.add("forward_timelike")
        if t * t == m2 and m2 > 0:
            tags.update({"lightlike", "boundary"})
    if all(c == 0 for c in comps[: min(3, len(comps))]):
        tags.update({"boundary", "zero"})
    return tags
