"""C12 — equality, inequality and closeness are coherent.

Exhaustive over dimension x all coordinate-system pairings x backend (object, NumPy,
Awkward array, Awkward record) x pair classes built from *stored* coordinates
(identical / one / two / all components different / nearly equal at several
distances / exactly equal across systems) x tolerance alphabet.
"""

from __future__ import annotations

import itertools
import math

import numpy as np

from .. import alphabet as A
from .. import build as B
from .. import lattice as L
from .. import sweep as S
from ..alphabet import Vec
from ..result import Result

import awkward as ak  # noqa: E402

ID = "C12"
RULE = (
    "cases = dimension x (system of a, system of b) x pair class x backend x form (method / operator / numpy function) x tolerance pair; "
    "non-trivial = a pair other than the trivially identical one, or an identical pair evaluated through an operator/numpy form; "
    "distinct = distinct (systems, pair, backend, form, tolerances)"
)
ASSUMPTIONS = [
    "operands contain no NaN",
    "same-system expectations are computed from the stored float64 coordinates (== iff all equal; isclose iff every |a_i-b_i| <= atol + rtol*|b_i|)",
    "mixed-system pairs only get the coherence clauses (symmetry, != is the negation of ==, == implies isclose, monotonicity); truth values come from the implementation",
    "numpy.isclose / numpy.allclose are compared with the methods on the NumPy backend only (the backend that implements the NumPy function protocol for them)",
    "mixed pairings (object x NumPy, generic x momentum NumPy/Awkward/object, Awkward x NumPy/object/record, each in both operand orders): every form the pairing supports on the pinned tree must agree element by element with the NumPy-backend methods; numpy.isclose/numpy.allclose are only required where a NumPy-backend vector is one of the operands and no Awkward operand is involved",
    "scalar-valued operators on Awkward *records* are compared with their methods when they return; see known_findings.json for the recorded Awkward-side failure",
]
CAP_S = {"quick": 900, "thorough": 3600}
TOLS = [(0.0, 0.0), (1e-9, 0.0), (1e-5, 1e-8), (0.0, 1e-6), (1e-3, 0.0), (0.75, 0.0), (0.5, 0.5)]
EXACT = {2: (0.625, 0.0), 3: (0.625, 0.0, 0.0), 4: (0.625, 0.0, 0.0, 1.625)}


def bounds(tier):
    return {"tier": tier, "system_pairs": "all 4 / 36 / 144", "tolerance_pairs": TOLS, "backends": ["OBJ", "NP", "AKA", "AKR", "NP with a differing extra field", "AKA with a differing extra field"], "mixed_pairings_ordered": [list(m) for m in MIXED],
            "pair_classes": ["degenerate stored tuples (zero transverse part / zero length with arbitrary stored angles)", "identical", "one component (each in turn)", "one component doubled (each in turn; decides which operand scales rtol)", "two components", "all components", "nearly equal 1e-12/1e-7/1e-3", "exact across systems", "rounded across systems", "different across systems"]}


def shards(tier):
    out = []
    for dim in (2, 3, 4):
        for sa in L.SYSTEMS[dim]:
            sbs = [list(sb) for sb in L.SYSTEMS[dim]]
            # the same-system partner (the heavy one) first, the rest in chunks of 4
            same = [list(sa)]
            rest = [sb for sb in sbs if sb != list(sa)]
            out.append({"dim": dim, "sysA": list(sa), "sysBs": same})
            for i in range(0, len(rest), 4):
                out.append({"dim": dim, "sysA": list(sa), "sysBs": rest[i : i + 4]})
    out.sort(key=lambda sh: -(sh["dim"] ** 2) * (10 if sh["sysBs"] == [sh["sysA"]] else 1))
    return out


def _bases(dim, tier):
    vs = [v for v in A.vectors(dim, tier) if not v.has("near_axis") and not v.has("negtime")]
    return A.representatives(vs, 3, tags=("spacelike", "wildphi", "down")) if tier != "thorough" else vs[:8] + [v for v in vs[8:] if v.has("spacelike") or v.has("wildphi")][:2]


def pairs_for(dim, sa, sb, tier):
    """list of (label, stored_a, stored_b) with float stored coordinates."""
    out = []
    for v in _bases(dim, tier):
        s0 = S.stored(v, sa)
        if s0 is None:
            continue
        s0 = tuple(float(x) for x in s0)
        n = len(s0)
        if sa == sb:
            out.append(("identical", s0, s0))
            for i in range(n):
                t = list(s0)
                t[i] = s0[i] + 0.5
                out.append((f"one[{i}]", s0, tuple(t)))
            if n >= 2:
                for i, j in itertools.combinations(range(n), 2):
                    t = list(s0)
                    t[i] += 0.5
                    t[j] -= 0.25
                    out.append((f"two[{i}{j}]", s0, tuple(t)))
            out.append(("all", s0, tuple(x + 0.5 for x in s0)))
            # b_i = 2 a_i: |a_i - b_i| lies between rtol |a_i| and rtol |b_i| for rtol = 0.75, so the answer depends on *which*
            # operand the relative tolerance is scaled by (the second one, as in numpy.isclose), in either operand order
            for i in range(n):
                if s0[i] != 0:
                    t = list(s0)
                    t[i] = 2 * s0[i]
                    out.append((f"double[{i}]", s0, tuple(t)))
            for eps in (1e-12, 1e-7, 1e-3):
                for i in range(n):
                    t = list(s0)
                    t[i] = s0[i] * (1 + eps)
                    out.append((f"near{eps:g}[{i}]", s0, tuple(t)))
                out.append((f"near{eps:g}[all]", s0, tuple(x * (1 + eps) for x in s0)))
        else:
            s1 = S.stored(v, sb)
            if s1 is not None:
                out.append(("rounded-across", s0, tuple(float(x) for x in s1)))
            w = A.partners(dim, tier)[0]
            s2 = S.stored(w, sb)
            if s2 is not None:
                out.append(("different-across", s0, tuple(float(x) for x in s2)))
    # degenerate stored tuples (not obtained from a geometric vector): zero transverse part with arbitrary stored angles, and the
    # all-zero lengths with non-zero angles.  They are legitimate stored values, and ==, != are defined on stored coordinates.
    def raw(system, az, lon, tmp):
        t = list(az)
        if len(system) > 1:
            t.append(lon[system[1]])
        if len(system) > 2:
            t.append(tmp[system[2]])
        return tuple(float(x) for x in t)

    if dim == 2:
        # the null vector with different stored azimuths (rho = 0), and against the Cartesian zero
        za, zb = ((0.0, 0.0) if sa[0] == "xy" else (0.0, 0.25)), ((0.0, 0.0) if sb[0] == "xy" else (0.0, 1.75))
        out.append(("degenerate-zero", raw(sa, za, {}, {}), raw(sb, zb, {}, {})))
        out.append(("degenerate-zero-same", raw(sa, za, {}, {}), raw(sb, za if sa[0] == sb[0] else zb, {}, {})))
    if dim >= 3:
        la, lb = {"z": 1.25, "theta": 0.875, "eta": 1.0}, {"z": -0.75, "theta": 2.0, "eta": -0.5}
        ta, tb = {"t": 2.5, "tau": 1.5}, {"t": 2.5, "tau": 1.5}
        za, zb = ((0.0, 0.0) if sa[0] == "xy" else (0.0, 0.3)), ((0.0, 0.0) if sb[0] == "xy" else (0.0, -1.1))
        out.append(("degenerate-axis", raw(sa, za, la, ta), raw(sb, zb, lb, tb)))
        out.append(("degenerate-axis-same-lon", raw(sa, za, la, ta), raw(sb, zb, la, ta)))
        zero_l = {"z": 0.0, "theta": 0.875, "eta": 1.0}
        zero_l2 = {"z": 0.0, "theta": 2.0, "eta": -0.5}
        out.append(("degenerate-zero", raw(sa, za, zero_l, {"t": 0.0, "tau": 0.0}), raw(sb, zb, zero_l2, {"t": 0.0, "tau": 0.0})))
    e = Vec("exact", EXACT[dim], {"exact"})
    ea, eb = S.stored(e, sa), S.stored(e, sb)
    if ea is not None and eb is not None and sa != sb:
        out.append(("exact-across", tuple(float(x) for x in ea), tuple(float(x) for x in eb)))
        t = list(float(x) for x in eb)
        t[0] += 0.5
        out.append(("exact-across-one", tuple(float(x) for x in ea), tuple(t)))
    return out


def _b(x):
    """a python bool from a backend's single-element answer"""
    if isinstance(x, ak.Array):
        x = ak.to_list(x)
        while isinstance(x, list):
            x = x[0]
    elif isinstance(x, np.ndarray):
        x = x.reshape(-1)[0]
    return bool(x)


def _forms(backend):
    """name -> callable(a, b) for ==-like and !=-like forms available on a backend."""
    eq = {"method": lambda a, b: a.equal(b), "operator": lambda a, b: a == b, "numpy": lambda a, b: np.equal(a, b)}
    ne = {"method": lambda a, b: a.not_equal(b), "operator": lambda a, b: a != b, "numpy": lambda a, b: np.not_equal(a, b)}
    return eq, ne


def _iscl(a, b, rtol, atol):
    return all(abs(p - q) <= atol + rtol * abs(q) for p, q in zip(a, b))


def check_pairs(res: Result, dim, sa, sb, plist, backend, flavor="generic"):
    """Evaluate all clauses for one backend on the list of pairs (arrays hold all pairs)."""
    n = len(plist)
    if n == 0:
        return
    ra = [p[1] for p in plist]
    rb = [p[2] for p in plist]
    case0 = {"dim": dim, "sysA": list(sa), "sysB": list(sb), "backend": backend}
    eqf, nef = _forms(backend)

    def build(rows, system):
        if backend == "OBJ":
            return [B.make_obj(system, flavor, r) for r in rows]
        if backend == "NP":
            return B.make_np(system, flavor, rows)
        if backend == "AKA":
            return B.make_ak(system, flavor, rows, "flat")
        if backend in ("NP+extra", "AKA+extra"):
            # a non-coordinate field that differs between the two operands: comparisons are about coordinates only
            extra = {"weight": [float(i + (0.0 if rows is ra else 0.5)) for i in range(len(rows))]}
            return B.make_np(system, flavor, rows, extra=extra) if backend == "NP+extra" else B.make_ak(system, flavor, rows, "flat", extra=extra)
        if backend == "AKR":
            return [B.make_akr(system, flavor, r) for r in rows]
        raise KeyError(backend)

    va, vb = build(ra, sa), build(rb, sb)
    elementwise = backend in ("OBJ", "AKR")

    def run(f, x, y):
        """-> list of bools (one per pair) or ('raise', msg)"""
        res.transitions += n if elementwise else 1
        try:
            if elementwise:
                return [_b(f(p, q)) for p, q in zip(x, y)]
            r = f(x, y)
            if isinstance(r, ak.Array):
                return [bool(v) for v in ak.to_list(r)]
            return [bool(v) for v in np.asarray(r).reshape(-1)]
        except Exception as e:  # noqa: BLE001
            return ("raise", f"{type(e).__name__}: {str(e).strip()[:120]}")

    def viol(clause, i, msg, extra=None):
        lab = plist[i][0] if i is not None else "*"
        lab = lab.split("[")[0]
        case = dict(case0, a=list(plist[i][1]) if i is not None else None, b=list(plist[i][2]) if i is not None else None, label=plist[i][0] if i is not None else None)
        if extra:
            case.update(extra)
        res.violation(f"{clause}|{dim}D|{L.sysname(sa)}|{L.sysname(sb)}|{backend}|{lab}", msg, case)

    def tally(ok_count):
        res.traces += ok_count
        res.evaluations += ok_count
        res.nontrivial += ok_count

    res.states += n
    # reference: method forms
    eq = run(eqf["method"], va, vb)
    ne = run(nef["method"], va, vb)
    eq_ba = run(eqf["method"], vb, va)
    eq_aa = run(eqf["method"], va, va)
    for name, r in (("equal", eq), ("not_equal", ne), ("equal(b,a)", eq_ba), ("equal(a,a)", eq_aa)):
        if isinstance(r, tuple):
            viol("raises", 0, f"{name} raised {r[1]}", {"form": name})
            return
    good = 0
    for i in range(n):
        if not eq_aa[i]:
            viol("reflexive", i, "a == a is False")
        elif eq[i] != eq_ba[i]:
            viol("symmetric", i, f"(a == b) = {eq[i]} but (b == a) = {eq_ba[i]}")
        elif ne[i] == eq[i]:
            viol("negation", i, f"(a != b) = {ne[i]} and (a == b) = {eq[i]}: != is not the negation of ==")
        elif sa == sb and eq[i] != (plist[i][1] == plist[i][2]):
            viol("stored_eq", i, f"(a == b) = {eq[i]} but stored coordinates equal = {plist[i][1] == plist[i][2]}")
        else:
            good += 4 if sa == sb else 3
    tally(good)
    # operator and numpy forms agree with the methods
    for form in ("operator", "numpy"):
        for kind, fs, ref in (("==", eqf, eq), ("!=", nef, ne)):
            r = run(fs[form], va, vb)
            if isinstance(r, tuple):
                viol(f"form_raises[{form}{kind}]", 0, f"{form} form of {kind} raised {r[1]} while the method returns", {"form": form, "op": kind})
                continue
            bad = [i for i in range(n) if r[i] != ref[i]]
            for i in bad[:3]:
                viol(f"form_differs[{form}{kind}]", i, f"{form} form of {kind} gives {r[i]}, method gives {ref[i]}", {"form": form, "op": kind})
            tally(n - len(bad))
    # isclose
    prev = {}
    for rtol, atol in TOLS:
        ic = run(lambda x, y: x.isclose(y, rtol=rtol, atol=atol), va, vb)
        ic_aa = run(lambda x, y: x.isclose(y, rtol=rtol, atol=atol), va, va)
        ic_ba = run(lambda x, y: x.isclose(y, rtol=rtol, atol=atol), vb, va) if sa == sb else None
        if isinstance(ic_ba, list):
            for i in range(n):
                if ic_ba[i] != _iscl(plist[i][2], plist[i][1], rtol, atol):
                    viol("isclose_stored_reversed", i, f"b.isclose(a, rtol={rtol}, atol={atol}) = {ic_ba[i]} but per-coordinate |b-a| <= atol + rtol|a| gives {not ic_ba[i]}", {"rtol": rtol, "atol": atol})
                else:
                    res.traces += 1
                    res.nontrivial += 1
        elif isinstance(ic_ba, tuple):
            viol("raises", 0, f"isclose raised {ic_ba[1]}", {"form": "isclose(b,a)", "rtol": rtol, "atol": atol})
        if isinstance(ic, tuple) or isinstance(ic_aa, tuple):
            viol("raises", 0, f"isclose raised {(ic if isinstance(ic, tuple) else ic_aa)[1]}", {"form": "isclose", "rtol": rtol, "atol": atol})
            continue
        good = 0
        for i in range(n):
            ex = {"rtol": rtol, "atol": atol}
            if not ic_aa[i]:
                viol("isclose_reflexive", i, f"a.isclose(a, {rtol}, {atol}) is False", ex)
            elif eq[i] and not ic[i]:
                viol("eq_implies_isclose", i, f"a == b but not a.isclose(b, {rtol}, {atol})", ex)
            elif sa == sb and ic[i] != _iscl(plist[i][1], plist[i][2], rtol, atol):
                viol("isclose_stored", i, f"isclose(rtol={rtol}, atol={atol}) = {ic[i]} but per-coordinate |a-b| <= atol + rtol|b| gives {not ic[i]}", ex)
            else:
                good += 3 if sa == sb else 2
        tally(good)
        # monotone in (rtol, atol)
        for (r0, a0), old in prev.items():
            if r0 <= rtol and a0 <= atol:
                for i in range(n):
                    if old[i] and not ic[i]:
                        viol("isclose_monotone", i, f"isclose true at (rtol={r0}, atol={a0}) but false at the larger ({rtol}, {atol})", {"rtol": rtol, "atol": atol})
                    else:
                        res.traces += 1
        prev[(rtol, atol)] = ic
        if backend in ("NP", "NP+extra"):
            r = run(lambda x, y: np.isclose(x, y, rtol=rtol, atol=atol), va, vb)
            if isinstance(r, tuple):
                viol("form_raises[numpy.isclose]", 0, f"numpy.isclose raised {r[1]}", {"rtol": rtol, "atol": atol})
            else:
                bad = [i for i in range(n) if r[i] != ic[i]]
                for i in bad[:3]:
                    viol("form_differs[numpy.isclose]", i, f"numpy.isclose = {r[i]}, .isclose = {ic[i]}", {"rtol": rtol, "atol": atol})
                tally(n - len(bad))
        # tolerances passed by position, in the documented order (other, rtol, atol)
        pos = [("method.isclose(b, rtol, atol)", lambda x, y: x.isclose(y, rtol, atol))]
        if backend in ("NP", "NP+extra"):
            pos.append(("numpy.isclose(a, b, rtol, atol)", lambda x, y: np.isclose(x, y, rtol, atol)))
        for pname, pf in pos:
            r = run(pf, va, vb)
            if isinstance(r, tuple):
                viol(f"form_raises[{pname.split('(')[0]} positional]", 0, f"{pname} raised {r[1]}", {"rtol": rtol, "atol": atol})
            else:
                bad = [i for i in range(n) if r[i] != ic[i]]
                for i in bad[:3]:
                    viol(f"form_differs[{pname.split('(')[0]} positional]", i, f"{pname} = {r[i]}, with keywords = {ic[i]}", {"rtol": rtol, "atol": atol})
                tally(n - len(bad))
        if backend in ("NP", "AKA", "NP+extra", "AKA+extra"):
            res.transitions += 1
            try:
                alp = bool(va.allclose(vb, rtol, atol))
                if alp != all(ic):
                    viol("allclose_positional", None, f"allclose(b, {rtol}, {atol}) = {alp} but all(isclose) = {all(ic)}", {"rtol": rtol, "atol": atol})
                else:
                    tally(1)
                if backend in ("NP", "NP+extra"):
                    alp2 = bool(np.allclose(va, vb, rtol, atol))
                    if alp2 != all(ic):
                        viol("form_differs[numpy.allclose positional]", None, f"numpy.allclose(a, b, {rtol}, {atol}) = {alp2} but all(isclose) = {all(ic)}", {"rtol": rtol, "atol": atol})
                    else:
                        tally(1)
            except Exception as e:  # noqa: BLE001
                viol("raises", 0, f"allclose with positional tolerances raised {type(e).__name__}: {e}", {"form": "allclose positional"})
        if backend in ("NP", "AKA", "NP+extra", "AKA+extra"):
            res.transitions += 1
            try:
                al = bool(va.allclose(vb, rtol=rtol, atol=atol))
                if al != all(ic):
                    viol("allclose", None, f"allclose = {al} but all(isclose) = {all(ic)}", {"rtol": rtol, "atol": atol})
                else:
                    tally(1)
                if backend in ("NP", "NP+extra"):
                    al2 = bool(np.allclose(va, vb, rtol=rtol, atol=atol))
                    if al2 != al:
                        viol("form_differs[numpy.allclose]", None, f"numpy.allclose = {al2}, .allclose = {al}", {"rtol": rtol, "atol": atol})
                    else:
                        tally(1)
            except Exception as e:  # noqa: BLE001
                viol("raises", 0, f"allclose raised {type(e).__name__}: {e}", {"form": "allclose"})


# ---------------------------------------------------------------- mixed backend / flavor pairings
# (left kind, right kind): which side of a binary form is which backend / flavor.  Python and NumPy pick the operand
# whose protocol hook (__eq__, __array_ufunc__, __array_function__, Awkward behavior) handles the call by operand
# *order and class relationship* (a subclass on the right wins), so each ordered pairing is its own dispatch path.
MIXED = [("OBJ", "NP"), ("NP", "OBJ"), ("NP", "NPm"), ("NPm", "NP"), ("OBJ", "OBJm"), ("OBJm", "OBJ"), ("AKA", "NP"), ("NP", "AKA"), ("AKA", "OBJ"), ("OBJ", "AKA"),
         ("AKR", "AKA"), ("AKA", "AKR"), ("AKA", "AKAm"), ("AKAm", "AKA")]
# forms that the pairing supports on the pinned tree (numpy.isclose / numpy.allclose are a NumPy-backend protocol;
# Awkward answers numpy.isclose itself, field by field, which is not a vector operation)
CLOSE_FUNCS = {("OBJ", "NP"), ("NP", "OBJ"), ("NP", "NPm"), ("NPm", "NP")}
ALLCLOSE_METHOD = {("NP", "OBJ"), ("NP", "NPm"), ("NPm", "NP"), ("AKA", "NP"), ("AKA", "OBJ"), ("AKA", "AKR"), ("AKA", "AKAm"), ("AKAm", "AKA")}


def _mk(kind, system, rows):
    """-> (operand or list of operands, elementwise?)"""
    fl = "momentum" if kind.endswith("m") else "generic"
    k = kind.rstrip("m")
    if k == "OBJ":
        return [B.make_obj(system, fl, r) for r in rows], True
    if k == "AKR":
        return [B.make_akr(system, fl, r) for r in rows], True
    if k == "NP":
        return B.make_np(system, fl, rows), False
    return B.make_ak(system, fl, rows, "flat"), False


def check_mixed(res: Result, dim, sa, sb, plist, pairings=None):
    """Every comparison form on every ordered mixed pairing agrees, element by element, with the method forms of the
    plain NumPy backend (whose truth values check_pairs has tied to the stored coordinates)."""
    n = len(plist)
    if n == 0:
        return
    ra = [p[1] for p in plist]
    rb = [p[2] for p in plist]
    na, nb = B.make_np(sa, "generic", ra), B.make_np(sb, "generic", rb)
    ref = {"eq": [bool(v) for v in na.equal(nb)], "ne": [bool(v) for v in na.not_equal(nb)]}
    for rtol, atol in TOLS:
        ref[(rtol, atol)] = [bool(v) for v in na.isclose(nb, rtol=rtol, atol=atol)]

    def lst(r):
        if isinstance(r, ak.Array):
            r = ak.to_list(r)
            return [bool(v) for v in (r if isinstance(r, list) else [r])]
        return [bool(v) for v in np.asarray(r).reshape(-1)]

    for lk, rk in pairings or MIXED:
        left, lel = _mk(lk, sa, ra)
        right, rel = _mk(rk, sb, rb)
        case0 = {"dim": dim, "sysA": list(sa), "sysB": list(sb), "mixed": [lk, rk]}

        def run(f):
            """element-wise list of bools for form f over all pairs (object/record sides are taken one at a time against
            the matching one-element slice of the array side)"""
            res.transitions += 1
            if not lel and not rel:
                return lst(f(left, right))
            out = []
            for i in range(n):
                x = left[i] if lel else left[i : i + 1]
                y = right[i] if rel else right[i : i + 1]
                out.extend(lst(f(x, y))[:1])
            return out

        forms = [("method.equal", "eq", lambda x, y: x.equal(y)), ("method.not_equal", "ne", lambda x, y: x.not_equal(y)), ("==", "eq", lambda x, y: x == y), ("!=", "ne", lambda x, y: x != y),
                 ("numpy.equal", "eq", lambda x, y: np.equal(x, y)), ("numpy.not_equal", "ne", lambda x, y: np.not_equal(x, y))]
        for rtol, atol in TOLS:
            forms.append((f"method.isclose", (rtol, atol), lambda x, y, r=rtol, a=atol: x.isclose(y, rtol=r, atol=a)))
            if (lk, rk) in CLOSE_FUNCS:
                forms.append((f"numpy.isclose", (rtol, atol), lambda x, y, r=rtol, a=atol: np.isclose(x, y, rtol=r, atol=a)))
        res.states += n
        for name, key, f in forms:
            case = dict(case0, form=name, tol=list(key) if isinstance(key, tuple) else None)
            cls = f"mixed[{lk},{rk}]|{name}|{dim}D|{L.sysname(sa)}|{L.sysname(sb)}"
            try:
                got = run(f)
            except Exception as e:  # noqa: BLE001
                res.violation(cls + "|raises", f"{name}({lk}, {rk}) raised {type(e).__name__}: {str(e).strip()[:120]}", case)
                continue
            want = ref[key]
            bad = [i for i in range(n) if i >= len(got) or got[i] != want[i]]
            for i in bad[:2]:
                res.violation(cls, f"{name}({lk} a, {rk} b) = {got[i] if i < len(got) else None} but the NumPy-backend method gives {want[i]} (pair {plist[i][0]})", dict(case, a=list(ra[i]), b=list(rb[i]), label=plist[i][0]))
            res.traces += n - len(bad)
            res.evaluations += n - len(bad)
            res.nontrivial += n - len(bad)
        # allclose: method and numpy function on whole operands (array sides only)
        for rtol, atol in TOLS:
            want = all(ref[(rtol, atol)])
            afs = []
            if (lk, rk) in ALLCLOSE_METHOD:
                afs.append(("method.allclose", lambda x, y: x.allclose(y, rtol=rtol, atol=atol)))
            if (lk, rk) in CLOSE_FUNCS:
                afs.append(("numpy.allclose", lambda x, y: np.allclose(x, y, rtol=rtol, atol=atol)))
            for name, f in afs:
                case = dict(case0, form=name, tol=[rtol, atol])
                cls = f"mixed[{lk},{rk}]|{name}|{dim}D|{L.sysname(sa)}|{L.sysname(sb)}"
                res.transitions += 1
                try:
                    if lel or rel:
                        got = all(bool(f(left[i] if lel else left[i : i + 1], right[i] if rel else right[i : i + 1])) for i in range(n))
                    else:
                        got = bool(f(left, right))
                except Exception as e:  # noqa: BLE001
                    res.violation(cls + "|raises", f"{name}({lk}, {rk}) raised {type(e).__name__}: {str(e).strip()[:120]}", case)
                    continue
                if got != want:
                    res.violation(cls, f"{name}({lk} a, {rk} b) = {got} but all(isclose) on the NumPy backend = {want}", case)
                else:
                    res.traces += 1
                    res.evaluations += 1
                    res.nontrivial += 1


def _strided(plist, k):
    return plist if len(plist) <= k else plist[:: -(-len(plist) // k)]


def run_shard(shard, tier):
    res = Result()
    dim = shard["dim"]
    sa = tuple(shard["sysA"])
    for sb in [tuple(x) for x in shard["sysBs"]]:
        plist = pairs_for(dim, sa, sb, tier)
        check_mixed(res, dim, sa, sb, plist if tier == "thorough" else _strided(plist, 16))
        for backend in ("OBJ", "NP", "AKA", "AKR", "NP+extra", "AKA+extra"):
            pl = plist
            if backend == "AKR" and tier != "thorough":
                pl = plist[:: max(1, len(plist) // 12)]  # records are built one at a time (slow): every k-th pair in quick
            flavor = "momentum" if (backend in ("NP", "AKA", "AKA+extra") and sb == sa) else "generic"
            check_pairs(res, dim, sa, sb, pl, backend, flavor)
        if sb == sa and plist:
            res.sample({"dim": dim, "sysA": list(sa), "sysB": list(sb), "pairs": len(plist), "example": {"label": plist[1][0], "a": list(plist[1][1]), "b": list(plist[1][2])}})
    return res


def replay(case):
    res = Result()
    dim, sa, sb = case["dim"], tuple(case["sysA"]), tuple(case["sysB"])
    if case.get("a") is None:
        plist = pairs_for(dim, sa, sb, "thorough")
    else:
        plist = [(case.get("label") or "replay", tuple(case["a"]), tuple(case["b"]))]
    if case.get("mixed"):
        check_mixed(res, dim, sa, sb, plist, [tuple(case["mixed"])])
        return res
    check_pairs(res, dim, sa, sb, plist, case["backend"])
    return res
