"""C19 — NumPy vector arrays behave as arrays of vectors.

Exhaustive over array shapes up to rank 3 x all 20 coordinate systems x both flavors x
an index grammar (every integer / negative integer per axis, full and partial integer
tuples, slices, every boolean mask for small sizes, Ellipsis, None, integer-array
indices), reshapes / views / transposes, column access by every stored name and synonym,
copy / deepcopy / pickle (all protocols), and the array forms of vector objects.  The
reference is plain-ndarray semantics: the same expression applied to
``arr.view(numpy.ndarray)``.
"""

from __future__ import annotations

import copy
import itertools
import pickle

import numpy as np

from .. import alphabet as A
from .. import build as B
from .. import lattice as L
from .. import sweep as S
from ..result import Result

import vector  # noqa: E402

ID = "C19"
RULE = (
    "cases = coordinate system x flavor x array shape x expression (index expression, reshape / view / transpose, column access, copy / pickle protocol, "
    "array form of an object); each result is compared with the same expression on the plain structured ndarray (values), and class / coordinate system / "
    "flavor with the vector array's; non-trivial = an expression that selects, rearranges or round-trips at least one element; distinct = distinct cases"
)
ASSUMPTIONS = [
    "plain-ndarray semantics are the reference for element selection and shapes; element values must be bit-identical",
    "array forms of objects are also taken in every ordered pair of (system, flavor, values) whose stored numbers are equal (same numbers in another coordinate system; +0.0 vs -0.0): the second conversion must not depend on the first",
    "integer indexing to a single element must give the object-backend class of the same flavor and dimension with identical coordinates and coordinate system",
]
CAP_S = {"quick": 900, "thorough": 3600}
SHAPES = [(), (1,), (3,), (2, 2), (0,), (2, 1, 2), (2, 3), (2, 3, 2)]


def _permute_fields(order):
    """the same records with the fields of the structured dtype in another order (coordinates are found by name, not position)"""

    def f(a):
        plain = np.asarray(a.view(np.ndarray)) if isinstance(a, np.ndarray) else a
        names = plain.dtype.names
        perm = names[::-1] if order == "reversed" else names[1:] + names[:1]
        out = np.empty(plain.shape, dtype=[(n, plain.dtype[n]) for n in perm])
        for n in perm:
            out[n] = plain[n]
        return out.view(type(a)) if type(a) is not np.ndarray else out

    return f


def _layouts(shape, tier):
    """memory layouts of the same elements: the property is about arrays *of vectors*, so it must not depend on how the
    records are laid out (C / Fortran order, transposed, reversed or strided views)"""
    out = [("C", lambda a: a), ("fields-reversed", _permute_fields("reversed")), ("fields-rotated", _permute_fields("rotated"))]
    if len(shape) >= 1 and shape[0] > 1:
        out.append(("reversed", lambda a: a[::-1]))
        out.append(("strided", lambda a: a[::2]))
    if len(shape) >= 2:
        out.append(("T", lambda a: a.T))
        out.append(("F", lambda a: a.copy(order="F")))
        out.append(("swapaxes", lambda a: a.swapaxes(0, -1)[..., ::-1]))
    return out
OBJCLS = {("generic", 2): vector.VectorObject2D, ("generic", 3): vector.VectorObject3D, ("generic", 4): vector.VectorObject4D,
          ("momentum", 2): vector.MomentumObject2D, ("momentum", 3): vector.MomentumObject3D, ("momentum", 4): vector.MomentumObject4D}
NPCLS = {("generic", 2): vector.VectorNumpy2D, ("generic", 3): vector.VectorNumpy3D, ("generic", 4): vector.VectorNumpy4D,
         ("momentum", 2): vector.MomentumNumpy2D, ("momentum", 3): vector.MomentumNumpy3D, ("momentum", 4): vector.MomentumNumpy4D}
SYN = {"x": ["px"], "y": ["py"], "rho": ["pt"], "z": ["pz"], "t": ["E", "e", "energy"], "tau": ["M", "m", "mass"]}


def bounds(tier):
    return {"tier": tier, "shapes": [list(s) for s in SHAPES], "systems": 20, "flavors": 2, "layouts": ["C", "reversed", "strided", "T", "F", "swapaxes+reversed", "dtype fields reversed", "dtype fields rotated"], "pickle_protocols": list(range(0, pickle.HIGHEST_PROTOCOL + 1)),
            "index_grammar": "ints and negative ints per axis, integer tuples, slices {None,0,1,-1} x steps {None,2,-1}, all boolean masks (size <= 4), Ellipsis, None, integer arrays"}


def shards(tier):
    return ([{"kind": "object_history", "dim": d} for d in (4, 3, 2)] + [{"dim": d, "sys": list(s)} for d in (2, 3, 4) for s in L.SYSTEMS[d]]
            + [{"kind": "copy_history", "dim": d, "sys": list(s), "depth": 3 if tier == "quick" else 4} for d in (2, 3, 4) for s in L.SYSTEMS[d]])


def rows_for(dim, system, n):
    vs = [v for v in A.vectors(dim, "thorough") if not (v.has("near_axis") or v.has("fast") or v.has("negtime"))]
    out = []
    i = 0
    while len(out) < n:
        st = S.stored(vs[i % len(vs)], system)
        i += 1
        if st is not None:
            out.append(tuple(float(x) + 0.0 * len(out) for x in st))
    return out


def index_expressions(shape):
    """index expressions valid for an array of this shape (generated, then filtered by plain NumPy)"""
    exprs = []
    nd = len(shape)
    if nd == 0:
        return [(), Ellipsis, None]
    for ax in range(nd):
        n = shape[ax]
        for i in list(range(n)) + [-k for k in range(1, n + 1)]:
            exprs.append((slice(None),) * ax + (i,))
    if nd >= 1:
        ranges = [list(range(n)) for n in shape]
        for full in itertools.islice(itertools.product(*ranges), 8):
            exprs.append(tuple(full))
            exprs.append(tuple(-1 - k for k in full))
    starts = [None, 0, 1, -1]
    for a, b, c in itertools.product(starts, starts, [None, 2, -1]):
        exprs.append(slice(a, b, c))
    if nd >= 2:
        exprs.append((slice(None), slice(None, None, -1)))
        exprs.append((slice(0, 1), 0))
        exprs.append((Ellipsis, 0))
        exprs.append((0, Ellipsis))
    exprs += [Ellipsis, None, (None, Ellipsis), (Ellipsis, None)]
    n0 = shape[0]
    if n0 <= 4:
        for bits in itertools.product([False, True], repeat=n0):
            exprs.append(np.array(bits, dtype=bool))
    exprs.append([])  # the empty Python list: an empty integer index to NumPy
    if n0 <= 4:
        for bits in itertools.product([False, True], repeat=n0):
            exprs.append(list(bits))  # masks given as Python lists (the empty one for a zero-length axis included)
    if n0 > 0:
        exprs.append(np.array([0, n0 - 1, 0]))
        exprs.append([n0 - 1, 0])
        exprs.append([0])
        exprs.append(np.array([], dtype=int))
    if int(np.prod(shape)) <= 8 and nd >= 2:
        exprs.append(np.ones(shape, dtype=bool))
        m = np.zeros(shape, dtype=bool)
        m.flat[::2] = True
        exprs.append(m)
    return exprs


def describe_index(e):
    if isinstance(e, np.ndarray):
        return f"array({e.tolist()})"
    return repr(e)


def check(res: Result, dim, system, tier, only=None):
    names = L.field_names(system)
    for flavor in ("generic", "momentum"):
        fnames = L.field_names(system, flavor)
        cls = NPCLS[(flavor, dim)]
        for shape in SHAPES:
            n = int(np.prod(shape)) if shape else 1
            rows = rows_for(dim, system, max(n, 1))
            arr = B.make_np(system, flavor, rows[: max(n, 1)])
            if n == 0:
                arr = arr[:0]
            arr = arr.reshape(shape)
            arr0 = arr
            for lname, lay in _layouts(shape, tier):
                arr = lay(arr0)
                shape = arr.shape
                n = int(np.prod(shape)) if shape else 1
                plain = lay(np.array(arr0.view(np.ndarray), copy=True))
                base = {"sys": list(system), "flavor": flavor, "shape": list(shape), "layout": lname}

                def case_(kind, expr):
                    return dict(base, kind=kind, expr=expr)

                def begin():
                    res.states += 1
                    res.evaluations += 1
                    res.transitions += 1
                    res.traces += 1

                def viol(kind, what, msg, expr):
                    res.violation(f"{kind}|{what}|{L.sysname(system)}|{flavor}|shape{tuple(shape)}|{lname}", msg, case_(kind, expr))

                def same_array(r, want, kind, expr, need_class=True):
                    """r: vector array result, want: plain ndarray with the expected elements"""
                    if need_class and type(r) is not cls:
                        viol(kind, "class", f"{expr}: result class {type(r).__name__}, expected {cls.__name__}", expr)
                        return False
                    rp = np.asarray(r.view(np.ndarray))
                    if rp.shape != want.shape or rp.dtype.names != want.dtype.names or rp.tobytes() != np.ascontiguousarray(want).tobytes():
                        viol(kind, "value", f"{expr}: result {rp.tolist()} (shape {rp.shape}) differs from plain-ndarray semantics {want.tolist()} (shape {want.shape})", expr)
                        return False
                    if need_class and (B.system_of_fields(r.dtype.names) != tuple(system)):
                        viol(kind, "system", f"{expr}: coordinate system {B.system_of_fields(r.dtype.names)}, expected {system}", expr)
                        return False
                    return True

                # ---------------------------------------------------------------- indexing
                for e in index_expressions(shape):
                    expr = f"arr[{describe_index(e)}]"
                    if only and only != "index":
                        break
                    try:
                        want = plain[e]
                    except Exception:  # noqa: BLE001
                        continue  # not a valid index for a plain array of this shape
                    begin()
                    try:
                        r = arr[e]
                    except Exception as ex:  # noqa: BLE001
                        viol("index", "raises", f"{expr} raised {type(ex).__name__}: {ex}; the plain array gives {want!r}", expr)
                        continue
                    if isinstance(want, np.void):
                        ocls = OBJCLS[(flavor, dim)]
                        if type(r) is not ocls:
                            viol("index", "element_class", f"{expr} is {type(r).__name__}, expected {ocls.__name__}", expr)
                            continue
                        rs, rst = L.system_of(r)
                        if rs != tuple(system) or tuple(float(v) for v in rst) != tuple(float(want[nm]) for nm in names):
                            viol("index", "element_value", f"{expr} = {r!r}, the element is {want!r} in system {system}", expr)
                            continue
                    else:
                        if not same_array(r, want, "index", expr):
                            continue
                        if n and np.size(want) and not np.shares_memory(r.view(np.ndarray), arr.view(np.ndarray)) and isinstance(e, (slice, tuple)) and not any(isinstance(x, (np.ndarray, list)) for x in (e if isinstance(e, tuple) else (e,))):
                            viol("index", "not_a_view", f"{expr} does not share memory with the array (plain slicing gives a view)", expr)
                            continue
                    res.nontrivial += 1
                if only in (None, "misc"):
                    # ------------------------------------------------------------ reshapes, views, transposes, copies
                    ops = {
                        "arr.reshape(-1)": (lambda a: a.reshape(-1), True), "arr.T": (lambda a: a.T, True), "arr.ravel()": (lambda a: a.ravel(), True),
                        "arr.view(ndarray).view(cls)": (lambda a: a.view(np.ndarray).view(cls) if isinstance(a, vector.backends.numpy.VectorNumpy) else a, True),
                        "arr.copy()": (lambda a: a.copy(), True), "copy.copy(arr)": (lambda a: copy.copy(a), True), "copy.deepcopy(arr)": (lambda a: copy.deepcopy(a), True),
                        "arr[...].reshape(shape + (1,))": (lambda a: a.reshape(a.shape + (1,)), True), "arr.reshape(shape + (1,)).squeeze(-1)": (lambda a: a.reshape(a.shape + (1,)).squeeze(-1), True),
                        "arr.flatten()": (lambda a: a.flatten(), True), "arr.T.copy(order='C')": (lambda a: a.T.copy(order="C"), True),
                        "arr.astype(arr.dtype)": (lambda a: a.astype(a.dtype), True),
                        # another structured dtype: float32 fields under the generic names, and under the flavor's own spelling
                        "arr.astype(float32 fields)": (lambda a: a.astype([(nm_, np.float32) for nm_ in names]), True),
                        "arr.astype(float32 fields, own spelling)": (lambda a: _astype_spelled(a, names, fnames), True),
                    }
                    for proto in range(0, pickle.HIGHEST_PROTOCOL + 1):
                        ops[f"pickle.loads(pickle.dumps(arr, {proto}))"] = ((lambda p: lambda a: pickle.loads(pickle.dumps(a, p)))(proto), True)
                    for expr, (f, need_class) in ops.items():
                        begin()
                        try:
                            want = f(plain)
                            r = f(arr)
                        except Exception as ex:  # noqa: BLE001
                            viol("view", "raises", f"{expr} raised {type(ex).__name__}: {ex}", expr)
                            continue
                        if not isinstance(r, np.ndarray):
                            viol("view", "class", f"{expr} returned {type(r).__name__}", expr)
                            continue
                        if not same_array(r, np.asarray(want), "view", expr, need_class=need_class):
                            continue
                        if need_class and isinstance(r, vector.backends.numpy.VectorNumpy) and n:
                            # the result is still usable as a vector array
                            try:
                                np.asarray(r.rho)
                            except Exception as ex:  # noqa: BLE001
                                viol("view", "unusable", f"{expr}: the result cannot compute .rho: {type(ex).__name__}: {ex}", expr)
                                continue
                        res.nontrivial += 1
                    # ------------------------------------------------------------ column access
                    for gname, fname in zip(names, fnames):
                        for key in [gname] + (SYN.get(gname, []) if flavor == "momentum" else []):
                            expr = f"arr[{key!r}]"
                            begin()
                            try:
                                r = arr[key]
                            except Exception as ex:  # noqa: BLE001
                                viol("column", "raises", f"{expr} raised {type(ex).__name__}: {ex}", expr)
                                continue
                            want = plain[gname]
                            if type(r) is not np.ndarray or r.shape != want.shape or r.tobytes() != want.tobytes():
                                viol("column", "value", f"{expr} = {r!r}, the stored column is {want!r}", expr)
                                continue
                            if n and not np.shares_memory(r, arr.view(np.ndarray)):
                                viol("column", "not_a_view", f"{expr} does not share memory with the array", expr)
                                continue
                            res.nontrivial += 1
        # -------------------------------------------------------------------- array forms of objects
        if only in (None, "object"):
            row = rows_for(dim, system, 1)[0]
            obj = B.make_obj(system, flavor, row)
            base = {"sys": list(system), "flavor": flavor, "shape": "object"}
            for expr, f in (("obj.__array__()", lambda o: o.__array__()), ("numpy.asanyarray(obj)", lambda o: np.asanyarray(o)), ("numpy.asarray(obj)", lambda o: np.asarray(o))):
                res.states += 1
                res.evaluations += 1
                res.transitions += 1
                res.traces += 1
                cls_key = f"object|{expr}|{L.sysname(system)}|{flavor}"
                try:
                    r = f(obj)
                except Exception as ex:  # noqa: BLE001
                    res.violation(cls_key + "|raises", f"{expr} raised {type(ex).__name__}: {ex}", dict(base, kind="object", expr=expr))
                    continue
                want_cls = np.ndarray if expr == "numpy.asarray(obj)" else cls
                if type(r) is not want_cls:
                    res.violation(cls_key + "|class", f"{expr} is {type(r).__name__}, expected {want_cls.__name__}", dict(base, kind="object", expr=expr))
                    continue
                rp = r.view(np.ndarray)
                if rp.dtype.names != tuple(names) or tuple(float(rp[nm]) for nm in names) != tuple(row) or rp.size != 1:
                    res.violation(cls_key + "|value", f"{expr} = {rp!r}, expected fields {names} = {row}", dict(base, kind="object", expr=expr))
                    continue
                if want_cls is cls:
                    back = r.reshape(-1)[0]
                    if type(back) is not type(obj) or L.system_of(back) != L.system_of(obj):
                        res.violation(cls_key + "|roundtrip", f"{expr}[0] = {back!r}, the object was {obj!r}", dict(base, kind="object", expr=expr))
                        continue
                res.nontrivial += 1
    res.sample({"sys": list(system), "shapes": [list(s) for s in SHAPES], "index_expressions_rank2": len(index_expressions((2, 2)))})


HVALS = [(1.5, 0.75, 0.875, 2.5), (0.0, 0.0, 0.0, 0.0), (-0.0, 0.0, -0.0, 0.0), (0.75, 0.75, 0.75, 0.75),
         # coordinates that are not Python floats: ints, NumPy integers, float32, a mixture (they are legal coordinates of an object)
         (1, 2, 3, 4), (np.int64(1), np.int64(2), np.int64(3), np.int64(4)), (np.float32(1.5), np.float32(0.75), np.float32(0.875), np.float32(2.5)), (1, 0.75, 3, 2.5),
         (np.int32(2), np.int32(1), np.int32(1), np.int32(5))]
FORMS = (("obj.__array__()", lambda o: o.__array__()), ("numpy.asanyarray(obj)", lambda o: np.asanyarray(o)), ("numpy.asarray(obj)", lambda o: np.asarray(o)))


def check_object_history(res: Result, dim):
    """Array forms of vector objects do not depend on which objects were converted before: every ordered pair of (coordinate
    system, flavor, value tuple) with numerically equal stored values (same numbers in another coordinate system, or +0.0 vs
    -0.0) is converted one after the other in this process; the second must still give its own fields, class and bits."""
    states = [(s, f, v[:dim]) for s in L.SYSTEMS[dim] for f in ("generic", "momentum") for v in HVALS]
    for s1, f1, v1 in states:
        for s2, f2, v2 in states:
            if tuple(v1) != tuple(v2) or [type(x) for x in v1] != [type(x) for x in v2] and not all(isinstance(x, float) for x in tuple(v1) + tuple(v2)):
                continue  # numerically equal tuples only (0.0 == -0.0): the colliding ones; value kinds are not crossed
            o1, o2 = L.build_object(B.OBJ_CLASS[(f1, dim)], s1, tuple(v1)), L.build_object(B.OBJ_CLASS[(f2, dim)], s2, tuple(v2))
            for expr, f in FORMS:
                res.states += 1
                res.evaluations += 1
                res.transitions += 2
                res.traces += 1
                case = {"kind": "object_history", "dim": dim, "first": [list(s1), f1, [float(x) for x in v1]], "second": [list(s2), f2, [float(x) for x in v2]], "value_kind": type(v2[0]).__name__, "expr": expr}
                cls_key = f"object_history|{expr}|{dim}D|{L.sysname(s2)}|{f2}"
                try:
                    f(o1)
                    r = f(o2)
                except Exception as ex:  # noqa: BLE001
                    res.violation(cls_key + "|raises", f"{expr} raised {type(ex).__name__}: {ex}", case)
                    continue
                want_cls = np.ndarray if expr == "numpy.asarray(obj)" else NPCLS[(f2, dim)]
                names = L.field_names(s2)
                rp = r.view(np.ndarray)
                want = np.array([tuple(float(x) for x in v2)], dtype=[(n, np.float64) for n in names])
                if type(r) is not want_cls or rp.dtype.names != tuple(names) or rp.size != 1 or rp.reshape(-1).tobytes() != want.tobytes():
                    res.violation(cls_key, f"after {expr} of {type(o1).__name__}{L.system_of(o1)}, {expr} of {type(o2).__name__}{L.system_of(o2)} is {type(r).__name__} {rp!r}; expected {want_cls.__name__} with fields {names} = {tuple(float(x) for x in v2)}", case)
                    continue
                res.nontrivial += 1
    res.sample({"kind": "object_history", "dim": dim, "states": len(states), "value_tuples": [[float(x) for x in v[:dim]] for v in HVALS], "value_kinds": sorted({type(v[0]).__name__ for v in HVALS})})


def _astype_spelled(a, names, fnames):
    """astype to float32 fields spelled as the flavor spells them (px, py, ... for momentum arrays); for the plain reference array the
    expected result carries the generic names (the vector classes store generic names)"""
    if isinstance(a, vector.backends.numpy.VectorNumpy):
        return a.astype([(fn_, np.float32) for fn_ in fnames])
    return a.astype([(nm_, np.float32) for nm_ in names])


COPY_EVENTS = ["read[name]", "read.attr", "pickle", "copy.copy", "copy.deepcopy", ".copy()", "[:]", "write[name]", "write(view)", "write[elem]"]


def check_copy_history(res: Result, dim, system, depth):
    """Histories of reads, copies (pickle round trip, copy.copy, copy.deepcopy, .copy(), a full slice) and writes on one array name:
    after every event all the read routes of the current array agree (arr[name], arr.view(ndarray)[name], the attribute, the
    elements' attributes) with a plain structured-array mirror on which only the writes were replayed, and arrays left behind by a
    copy keep the values they had."""
    import copy
    import pickle

    for flavor in ("generic", "momentum"):
        fnames = L.field_names(system, flavor)
        rows = rows_for(dim, system, 3)
        base = {"kind": "copy_history", "dim": dim, "sys": list(system), "flavor": flavor}

        def coherent(arr, mirror, hist, what):
            for nme in fnames:
                want = mirror[mirror.dtype.names[fnames.index(nme)]]
                routes = {f"arr[{nme!r}]": lambda: np.asarray(arr[nme]), f"arr.view(ndarray)[{nme!r}]": lambda: arr.view(np.ndarray)[arr.dtype.names[fnames.index(nme)]], f"arr.{nme}": lambda: np.asarray(getattr(arr, nme)),
                          f"[arr[i].{nme}]": lambda: np.array([getattr(arr[i], nme) for i in range(len(arr))])}
                for rname, f in routes.items():
                    res.traces += 1
                    try:
                        got = f()
                    except Exception as e:  # noqa: BLE001
                        res.violation(f"copy_history|{L.sysname(system)}|{flavor}|raises", f"after {hist}: {rname} raised {type(e).__name__}: {e}", dict(base, history=hist))
                        return False
                    if got.shape != want.shape or not np.array_equal(got, want):
                        res.violation(f"copy_history|{L.sysname(system)}|{flavor}|{what}", f"after {hist}: {rname} of the {what} = {got.tolist()}, its stored column is {want.tolist()}", dict(base, history=hist))
                        return False
                    res.nontrivial += 1
            return True

        frontier = [(e,) for e in COPY_EVENTS]
        for d in range(1, depth + 1):
            nxt = []
            for hist in frontier:
                res.states += 1
                res.evaluations += 1
                arr = B.make_np(system, flavor, rows)
                mirror = np.array(arr.view(np.ndarray), copy=True)
                left = []  # (array left behind by a copy, its mirror)
                ok = True
                for k, ev in enumerate(hist):
                    res.transitions += 1
                    try:
                        if ev == "read[name]":
                            for nme in fnames:
                                arr[nme]
                        elif ev == "read.attr":
                            for nme in fnames:
                                getattr(arr, nme)
                        elif ev in ("pickle", "copy.copy", "copy.deepcopy", ".copy()"):
                            new = {"pickle": lambda a: pickle.loads(pickle.dumps(a)), "copy.copy": copy.copy, "copy.deepcopy": copy.deepcopy, ".copy()": lambda a: a.copy()}[ev](arr)
                            left.append((arr, mirror))
                            arr, mirror = new, mirror.copy()
                        elif ev == "[:]":
                            arr = arr[:]
                        elif ev == "write[name]":
                            arr[fnames[0]] = arr[fnames[0]] * 2 + (k + 1)
                            mirror[mirror.dtype.names[0]] = mirror[mirror.dtype.names[0]] * 2 + (k + 1)
                        elif ev == "write(view)":
                            arr.view(np.ndarray)[arr.dtype.names[-1]] += 0.5
                            mirror[mirror.dtype.names[-1]] += 0.5
                        elif ev == "write[elem]":
                            arr.view(np.ndarray)[1] = arr.view(np.ndarray)[0]
                            mirror[1] = mirror[0]
                    except Exception as e:  # noqa: BLE001
                        res.violation(f"copy_history|{L.sysname(system)}|{flavor}|raises", f"{list(hist[:k + 1])}: {ev} raised {type(e).__name__}: {e}", dict(base, history=list(hist)))
                        ok = False
                        break
                    if type(arr) is not NPCLS[(flavor, dim)]:
                        res.violation(f"copy_history|{L.sysname(system)}|{flavor}|class", f"after {list(hist[:k + 1])} the array is a {type(arr).__name__}", dict(base, history=list(hist)))
                        ok = False
                        break
                if ok:
                    ok = coherent(arr, mirror, list(hist), "current array") and all(coherent(a_, m_, list(hist), "array left behind by a copy") for a_, m_ in left)
                if ok and d < depth:
                    for e in COPY_EVENTS:
                        nxt.append(hist + (e,))
            frontier = nxt
    res.sample({"kind": "copy_history", "sys": list(system), "events": COPY_EVENTS, "depth": depth})


BIG = [2**53 + 1, 1700000000123456789, 2**62 + 3, 9007199254740993, 2**53 + 5, 2**60 - 1, 36028797018963969, 2**55 + 1]


def check_big_integers(res: Result, dim, system):
    """Integer-typed arrays holding values beyond 2**53 (timestamps, identifiers kept in a coordinate field): every element reached by
    integer indexing, N-d indexing or iteration carries exactly the stored integers (compared as Python ints: a detour through
    float64 rounds them)."""
    for flavor in ("generic", "momentum"):
        fnames = L.field_names(system, flavor)
        for dt in (np.int64, np.uint64):
            for shape in ((3,), (2, 2)):
                n = int(np.prod(shape))
                raw = np.zeros(n, dtype=[(f, dt) for f in fnames])
                for j, f in enumerate(fnames):
                    raw[f] = [BIG[(i + j) % len(BIG)] + i for i in range(n)]
                arr = raw.reshape(shape).view(NPCLS[(flavor, dim)])
                plain = raw.reshape(shape)
                routes = [(f"arr[{idx}]", (lambda idx=idx: arr[idx]), idx) for idx in np.ndindex(*shape)] if len(shape) > 1 else [(f"arr[{i}]", (lambda i=i: arr[i]), (i,)) for i in range(n)] + [(f"arr[{i - n}]", (lambda i=i: arr[i - n]), (i,)) for i in range(n)]
                if len(shape) == 1:
                    routes += [(f"list(arr)[{i}]", (lambda i=i: list(arr)[i]), (i,)) for i in range(n)]
                for rname, f, idx in routes:
                    res.states += 1
                    res.transitions += 1
                    res.traces += 1
                    res.evaluations += 1
                    case = {"kind": "big_integers", "dim": dim, "sys": list(system), "flavor": flavor, "dtype": np.dtype(dt).name, "shape": list(shape), "expr": rname}
                    cls = f"big_integers|{L.sysname(system)}|{np.dtype(dt).name}|{'index' if rname.startswith('arr') else 'iteration'}"
                    try:
                        el = f()
                        got = [int(getattr(el, fn)) for fn in fnames]
                    except Exception as e:  # noqa: BLE001
                        res.violation(cls + "|raises", f"{rname} of an {np.dtype(dt).name} array raised {type(e).__name__}: {e}", case)
                        continue
                    want = [int(plain[fn][idx]) for fn in plain.dtype.names]
                    if got != want:
                        res.violation(cls, f"{rname}: element coordinates {got}, stored {want}", case)
                    else:
                        res.nontrivial += 1


def run_shard(shard, tier):
    res = Result()
    if shard.get("kind") == "copy_history":
        check_big_integers(res, shard["dim"], tuple(shard["sys"]))
        check_copy_history(res, shard["dim"], tuple(shard["sys"]), shard["depth"])
        return res
    if shard.get("kind") == "object_history":
        check_object_history(res, shard["dim"])
        return res
    check(res, shard["dim"], tuple(shard["sys"]), tier)
    return res


def replay(case):
    res = Result()
    if case.get("kind") == "big_integers":
        check_big_integers(res, case["dim"], tuple(case["sys"]))
        return res
    if case.get("kind") == "copy_history":
        check_copy_history(res, case["dim"], tuple(case["sys"]), len(case["history"]))
        return res
    if case.get("kind") == "object_history":
        check_object_history(res, case["dim"])
        return res
    system = tuple(case["sys"])
    kind = case.get("kind")
    only = {"index": "index", "view": "misc", "column": "misc", "object": "object"}.get(kind)
    check(res, len(system) + 1, system, "thorough", only=only)
    return res
