"""C16 — operations never modify their operands.

The lattice monitor: every operand (coordinates, coordinate system, flavor, shape /
list structure, extra fields, behavior attachment; and for NumPy *views* the whole base
array) is snapshotted bit for bit before each call and compared after it, whether the
call returns or raises.  Driven over the operation lattice of C03 (operation x
signature x flavor x backend pairing x container) with operands that carry an extra
``charge`` field and NumPy operands that are strided views, plus conversions,
reductions, comparisons, NumPy / Awkward functions, indexing, pickling and __array__.
"""

from __future__ import annotations

import copy
import itertools
import pickle

import numpy as np

from .. import alphabet as A
from .. import build as B
from .. import lattice as L
from .. import sweep as S
from ..catalogue import BY_KEY, OPS
from ..result import Result
from . import C03
from .C04 import TARGETS, dim_calls

import awkward as ak  # noqa: E402
import vector  # noqa: E402

ID = "C16"
RULE = (
    "cases = call (catalogued operation, conversion, reduction, comparison, numpy/awkward function, indexing, pickling) x signature x flavor x backend pairing x "
    "container (incl. NumPy views and operands with an extra field); every operand is snapshotted before and compared after the call; states = cases, "
    "transitions = calls, traces = snapshot comparisons; non-trivial = a call that returned (or raised) on at least one array / record / object operand with "
    "a comparison made; distinct = distinct cases"
)
ASSUMPTIONS = [
    "snapshot = NumPy: class, dtype, field names, shape, strides, raw bytes, and the same for the base array of a view; Awkward: class, form, length, every buffer's bytes, behavior identity, field list, record name; objects: class, coordinate classes and bit patterns of the stored values",
    "explicit in-place operators and assignments are excluded (they are C15's subject)",
    "viewing a plain structured array as a MomentumNumpy class (a constructor, which renames dtype fields) is not an operation on a vector operand and is outside this check",
]
CAP_S = {"quick": 2400, "thorough": 10800}


def bounds(tier):
    return {"tier": tier, "operation_lattice": "as C03 (all operations, all unary signatures, binary diagonal+cross in quick / all in thorough, all 16 backend pairings)",
            "extra": ["operands with a 'charge' field", "NumPy strided views of a larger array (base snapshotted)", "40 to_* conversions + dimension changes", "sum / count_nonzero / ak.sum / ak.count",
                      "operator and NumPy-ufunc forms (+ - == != @ unary - + abs * / ** and numpy.add ... numpy.power) on all 16 ordered backend pairings x flavors", "== != isclose allclose", "indexing, field access, pickling, copy, __array__, numpy.asarray"]}


def shards(tier):
    out = [{"kind": "ops", **sh} for sh in C03.shards(tier)]
    for dim in (2, 3, 4):
        for s in L.SYSTEMS[dim]:
            out.append({"kind": "misc", "dim": dim, "sys": list(s)})
            out.append({"kind": "operators", "dim": dim, "sys": list(s)})
    return out


def make(backend, system, flavor, rows, cfg, variant):
    """operand builder; variant 'extra' adds a charge field, 'view' makes a strided NumPy view of a larger array"""
    n = len(rows)
    if backend == "NP" and variant == "view" and cfg == "1d":
        big = []
        for r in rows:
            big += [r, tuple(x + 100.0 for x in r)]
        base = B.make_np(system, flavor, big)
        return base[::2]
    if backend in ("NP", "AKA") and variant == "extra" and cfg in ("1d", "flat", "jagged"):
        extra = {"charge": list(range(1, n + 1))}
        if backend == "NP":
            return B.make_np(system, flavor, rows, extra=extra)
        return B.make_ak(system, flavor, rows, cfg, extra=extra)
    if backend == "AKR" and variant == "extra":
        return B.make_akr(system, flavor, rows[0], extra={"charge": 7})
    if backend in ("AKA", "AKR") and variant == "annotated":
        # record-level parameters besides the record name (documentation, units): they belong to the operand too
        plain = B.make_ak(system, flavor, rows, cfg if backend == "AKA" and cfg in ("flat", "jagged") else "flat")
        cols = {f: plain[f] for f in ak.fields(plain)}
        name = plain.layout.purelist_parameter("__record__")
        a = ak.zip(cols, with_name=name, parameters={"__doc__": "annotated operand", "units": "GeV"}, behavior=vector.backends.awkward.behavior)
        return a[0] if backend == "AKR" else a
    return C03.make(backend, system, flavor, rows, cfg)


class _DictBox:
    """a caller-owned dict argument (transform matrices); snapshot = its items"""

    def __init__(self, d):
        self.d = d


def _snap(o):
    if isinstance(o, _DictBox):
        return ("DICT", tuple((k, repr(v)) for k, v in o.d.items()))
    if isinstance(o, np.ndarray) and not isinstance(o, vector.backends.numpy.VectorNumpy):
        return ("PLAIN-NP", o.dtype.str, o.shape, o.strides, o.tobytes())
    if isinstance(o, ak.Array) and not isinstance(o, vector.backends.awkward.VectorAwkward):
        form, length, bufs = ak.to_buffers(o)
        return ("PLAIN-AK", str(form), length, tuple((k, np.asarray(v).tobytes()) for k, v in sorted(bufs.items())))
    return B.snapshot(o)


def monitored(res: Result, label, cls, operands, fn, case):
    """run fn() with all operands snapshotted before and after"""
    res.states += 1
    res.evaluations += 1
    before = [_snap(o) for o in operands]
    res.transitions += 1
    raised = None
    try:
        fn()
    except Exception as e:  # noqa: BLE001
        raised = type(e).__name__
    ok = True
    for i, (o, b) in enumerate(zip(operands, before)):
        res.traces += 1
        after = _snap(o)
        if after != b:
            what = _diff(b, after)
            res.violation(f"operand_modified|{cls}|operand{i}", f"{label} changed operand {i} ({type(o).__name__}): {what}" + (f" (the call raised {raised})" if raised else ""), case)
            ok = False
    if ok:
        res.nontrivial += 1
        if raised:
            res.count("calls_that_raised_and_left_operands_unchanged")


def _diff(b, a):
    if b[0] != a[0]:
        return f"kind {b[0]} -> {a[0]}"
    if b[0] == "NP":
        names = ("kind", "class", "dtype", "fields", "shape", "strides", "bytes", "base")
        return ", ".join(n for n, x, y in zip(names, b, a) if x != y) + " differ"
    if b[0] == "AK":
        names = ("kind", "class", "form", "length", "buffers", "behavior", "fields", "record name")
        return ", ".join(n for n, x, y in zip(names, b, a) if x != y) + " differ"
    return f"{b} -> {a}"


def run_ops(res, shard, tier):
    op = BY_KEY[shard["op"]]
    dimA, dimB = shard["dimA"], shard["dimB"]
    only_sa = tuple(shard["sysA"]) if "sysA" in shard else None
    s = C03.scalars_for(op)
    full = tier == "thorough"
    sig_all = [sg for sg in S.signatures(op, dimA, dimB, "all") if only_sa is None or sg[0] == only_sa]
    sigs = sig_all if (full or dimB is None) else [sg for sg in S.signatures(op, dimA, dimB, "diag") if only_sa is None or sg[0] == only_sa]
    backs = ("OBJ", "NP", "AKA", "AKR")
    pairings = [(b, None) for b in backs] if dimB is None else list(itertools.product(backs, backs))
    flavors = ["momentum"] if op.momentum_only else ["generic", "momentum"]
    for k, (sa, sb) in enumerate(sigs):
        rows_a, rows_b = C03.operand_rows(op, dimA, dimB, sa, sb, tier)
        if not rows_a:
            continue
        fa = flavors[k % len(flavors)]
        fb = ("momentum" if fa == "generic" else "generic") if dimB is not None else None
        for ba, bb in pairings:
            for cfga, cfgb in C03.configs(ba, bb, tier):
                if cfga == "empty" or cfgb == "empty":
                    continue
                for variant in ("plain", "extra", "view", "annotated"):
                    if variant == "view" and "NP" not in (ba, bb):
                        continue
                    if variant == "annotated" and not ({ba, bb} & {"AKA", "AKR"}):
                        continue
                    if variant == "extra" and ba == "OBJ" and bb in (None, "OBJ"):
                        continue
                    try:
                        va = make(ba, sa, fa, rows_a, cfga, variant)
                        vb = make(bb, sb, fb, rows_b, cfgb, variant) if bb is not None else None
                    except Exception as e:  # noqa: BLE001
                        res.count("operand_build_failed")
                        continue
                    case = {"kind": "ops", "op": op.key, "sysA": list(sa), "sysB": list(sb) if sb else None, "fa": fa, "fb": fb, "ba": ba, "bb": bb, "cfgA": cfga, "cfgB": cfgb, "variant": variant}
                    cls = f"{op.key}|{ba}" + (f"x{bb}" if bb else "") + f"|{variant}"
                    ops_ = [va] + ([vb] if vb is not None else [])
                    monitored(res, op.key, cls, ops_, lambda: op.call(va, [vb] if vb is not None else [], s), case)
                    if variant == "plain" and (C03.op_scalar_keys(op) or "matrix" in s) and ba in ("NP", "AKA") and cfga in ("1d", "flat", "jagged", "2d"):
                        # the non-vector arguments are the caller's objects too: scalar arguments given as arrays, the matrix dict
                        ss = dict(s)
                        extra_args = []
                        for kk in C03.ARRAYABLE:
                            if kk in ss and kk in C03.op_scalar_keys(op):
                                ss[kk] = B.make_scalar_like(ss[kk], va, ba)
                                extra_args.append(ss[kk])
                                break
                        if "matrix" in ss:
                            ss["matrix"] = dict(ss["matrix"])
                            extra_args.append(_DictBox(ss["matrix"]))
                        if extra_args:
                            monitored(res, op.key, cls + "|arguments", ops_ + extra_args, lambda: op.call(va, [vb] if vb is not None else [], ss), dict(case, variant="scalar-array"))
    res.sample({"kind": "ops", "op": op.key, "dimA": dimA, "dimB": dimB, "signatures": len(sigs), "pairings": len(pairings), "variants": ["plain", "extra field", "NumPy view"]})


def run_misc(res, dim, system, tier):
    vs = [v for v in A.vectors(dim, tier) if C03._well(v)]
    vs = A.representatives([v for v in vs if not v.has("wildphi")], 6) + [v for v in vs if v.has("wildphi")]  # incl. azimuths stored outside [-pi, pi]
    rows = [tuple(float(x) for x in S.stored(v, system)) for v in vs if S.stored(v, system) is not None]
    if len(rows) < 2:
        return
    other_sys = L.CART[dim] if system != L.CART[dim] else L.SYSTEMS[dim][-1]
    rows_o = [tuple(float(x) for x in S.stored(v, other_sys)) for v in vs if S.stored(v, other_sys) is not None and S.stored(v, system) is not None]
    # a row of negative zeros (x = -0.0 / phi = -0.0, z = -0.0 / eta = -0.0): value-equal rewrites (x + 0, abs, round) would change its bits
    NZ = {"x": -0.0, "y": 1.25, "rho": 1.25, "phi": -0.0, "z": -0.0, "theta": 1.5, "eta": -0.0, "t": 2.5, "tau": 1.5}
    rows = rows + [tuple(NZ[n] for n in L.field_names(system))]
    rows_o = rows_o + [tuple(NZ[n] for n in L.field_names(other_sys))]
    for flavor in ("generic", "momentum"):
        for backend, cfg, variant in (("OBJ", None, "plain"), ("NP", "1d", "plain"), ("NP", "1d", "extra"), ("NP", "1d", "view"), ("NP", "2d", "plain"), ("NP", "swapped", "plain"), ("NP", "strided", "plain"), ("NP", "F2d", "plain"),
                                      ("AKA", "jagged", "plain"), ("AKA", "jagged", "extra"), ("AKA", "flat", "annotated"), ("AKA", "jagged", "annotated"), ("AKR", None, "annotated"), ("AKA", "optrec", "plain"), ("AKA", "nested3", "plain"), ("AKR", None, "extra")):
            try:
                v = make(backend, system, flavor, rows, cfg, variant)
                w = make(backend, other_sys, flavor, rows_o, cfg, "plain")
            except Exception:  # noqa: BLE001
                res.count("operand_build_failed")
                continue
            base = {"kind": "misc", "dim": dim, "sys": list(system), "backend": backend, "cfg": cfg, "variant": variant, "flavor": flavor}

            def mon(label, fn, operands=None):
                monitored(res, label, f"{label}|{backend}|{variant}", operands or [v], fn, dict(base, call=label))

            for name, tsys, kwmap in TARGETS:
                mon(name, lambda name=name: getattr(v, name)())
            for label, meth, kws, tdim in dim_calls(dim):
                kwargs = {k: 1.5 for k in kws}
                mon(label, lambda meth=meth, kwargs=kwargs: getattr(v, meth)(**kwargs))
            mon("like", lambda: v.like(w), [v, w])
            # comparisons
            mon("==", lambda: v == w, [v, w])
            mon("!=", lambda: v != w, [v, w])
            mon("equal", lambda: v.equal(w), [v, w])
            mon("isclose", lambda: v.isclose(w), [v, w])
            if backend in ("NP", "AKA"):
                mon("allclose", lambda: v.allclose(w), [v, w])
            if backend == "NP":
                mon("numpy.isclose", lambda: np.isclose(v, w), [v, w])
                mon("numpy.allclose", lambda: np.allclose(v, w), [v, w])
                for axis in (None, 0, -1):
                    for keepdims in (False, True):
                        mon(f"numpy.sum(axis={axis},keepdims={keepdims})", lambda axis=axis, keepdims=keepdims: np.sum(v, axis=axis, keepdims=keepdims))
                        mon(f"count_nonzero(axis={axis},keepdims={keepdims})", lambda axis=axis, keepdims=keepdims: np.count_nonzero(v, axis=axis, keepdims=keepdims))
                mon(".sum()", lambda: v.sum())
                mon("getitem[int]", lambda: v[0])
                mon("getitem[slice]", lambda: v[1:])
                mon("getitem[mask]", lambda: v[np.arange(v.shape[0]) % 2 == 0])
                mon("getitem[field]", lambda: v[L.field_names(system)[0]])
                mon("reshape", lambda: v.reshape(-1))
                mon(".T", lambda: v.T)
                mon("view(ndarray)", lambda: v.view(np.ndarray))
                mon("numpy.asarray", lambda: np.asarray(v))
                mon("pickle", lambda: pickle.loads(pickle.dumps(v)))
                mon("copy", lambda: copy.deepcopy(v))
                mon("repr", lambda: repr(v))
                mon("str", lambda: str(v))
            if backend in ("AKA", "AKR"):
                mon("repr", lambda: repr(v))
                mon("str", lambda: str(v))
            if backend == "AKA":
                for axis in (None, 0, 1, -1):
                    mon(f"ak.sum(axis={axis})", lambda axis=axis: ak.sum(v, axis=axis))
                    mon(f"ak.count(axis={axis})", lambda axis=axis: ak.count(v, axis=axis))
                    mon(f"ak.count_nonzero(axis={axis})", lambda axis=axis: ak.count_nonzero(v, axis=axis))
                mon("getitem[int]", lambda: v[0])
                mon("getitem[slice]", lambda: v[1:])
                mon("getitem[field]", lambda: v[ak.fields(v)[0]])
                mon("ak.flatten", lambda: ak.flatten(v, axis=None) if False else ak.num(v, axis=0))
                mon("ak.to_list", lambda: ak.to_list(v))
                mon("pickle", lambda: pickle.loads(pickle.dumps(v)))
                mon("vector.Array(v)", lambda: vector.Array(v))
            if backend == "OBJ":
                mon("__array__", lambda: v.__array__())
                mon("numpy.asanyarray", lambda: np.asanyarray(v))
                mon("numpy.asarray", lambda: np.asarray(v))
                mon("pickle", lambda: pickle.loads(pickle.dumps(v)))
                mon("repr", lambda: repr(v))
                mon("numpy.add", lambda: np.add(v, w), [v, w])
            if backend == "AKR":
                mon("pickle", lambda: pickle.loads(pickle.dumps(v)))
                mon("to_list", lambda: v.to_list())
    res.sample({"kind": "misc", "sys": list(system), "backends": ["OBJ", "NP", "NP view", "NP extra field", "AKA jagged/optrec/nested3", "AKR"]})


OPERATORS2 = [("+", lambda a, b: a + b), ("-", lambda a, b: a - b), ("==", lambda a, b: a == b), ("!=", lambda a, b: a != b), ("@", lambda a, b: a @ b),
              ("numpy.add", lambda a, b: np.add(a, b)), ("numpy.subtract", lambda a, b: np.subtract(a, b)), ("numpy.equal", lambda a, b: np.equal(a, b)),
              ("numpy.not_equal", lambda a, b: np.not_equal(a, b)), ("numpy.matmul", lambda a, b: np.matmul(a, b))]
OPERATORS1 = [("neg", lambda a: -a), ("pos", lambda a: +a), ("abs", lambda a: abs(a)), ("*2", lambda a: a * 2.0), ("2*", lambda a: 2.0 * a), ("/2", lambda a: a / 2.0), ("**2", lambda a: a**2),
              ("numpy.negative", lambda a: np.negative(a)), ("numpy.absolute", lambda a: np.absolute(a)), ("numpy.multiply(2)", lambda a: np.multiply(a, 2.0)), ("numpy.power(2)", lambda a: np.power(a, 2)),
              ("*array", None), ("array*", None)]


def run_operators(res, dim, system, tier):
    """operator and NumPy-ufunc *forms* (they take other dispatch paths than the methods: __array_ufunc__, Awkward behaviors and casts)
    on every ordered backend pairing, both flavors on either side, same and Cartesian partner systems"""
    vs = [v for v in A.vectors(dim, tier) if C03._well(v)]
    vs = A.representatives([v for v in vs if not v.has("wildphi")], 4) + [v for v in vs if v.has("wildphi")][:1]
    rows = [tuple(float(x) for x in S.stored(v, system)) for v in vs if S.stored(v, system) is not None]
    if len(rows) < 2:
        return
    partner_systems = [system] + ([L.CART[dim]] if tuple(system) != L.CART[dim] else [L.SYSTEMS[dim][-1]])
    backs = ("OBJ", "NP", "AKA", "AKR")
    cfg_of = {"OBJ": None, "AKR": None, "NP": "1d", "AKA": "flat"}
    for fa, fb in (("generic", "momentum"), ("momentum", "generic"), ("momentum", "momentum")) if tier == "thorough" else (("generic", "momentum"), ("momentum", "momentum")):
        for ba in backs:
            try:
                va = make(ba, system, fa, rows, cfg_of[ba], "plain")
            except Exception:  # noqa: BLE001
                res.count("operand_build_failed")
                continue
            base = {"kind": "operators", "dim": dim, "sys": list(system), "ba": ba, "fa": fa}
            for name, f in OPERATORS1:
                if f is None:
                    if ba not in ("NP", "AKA"):
                        continue
                    k = np.arange(1, len(rows) + 1, dtype=np.float64) if ba == "NP" else ak.Array(list(map(float, range(1, len(rows) + 1))))
                    f = (lambda a, k=k: a * k) if name == "*array" else (lambda a, k=k: k * a)
                    monitored(res, name, f"operator|{name}|{ba}|{fa}", [va, k], lambda f=f: f(va), dict(base, op=name))
                else:
                    monitored(res, name, f"operator|{name}|{ba}|{fa}", [va], lambda f=f: f(va), dict(base, op=name))
            for psys in partner_systems:
                rows_b = [tuple(float(x) for x in S.stored(v, psys)) for v in vs if S.stored(v, psys) is not None and S.stored(v, system) is not None][::-1]
                for bb in backs:
                    try:
                        vb = make(bb, psys, fb, rows_b, cfg_of[bb], "plain")
                    except Exception:  # noqa: BLE001
                        res.count("operand_build_failed")
                        continue
                    for name, f in OPERATORS2:
                        monitored(res, name, f"operator|{name}|{ba}x{bb}|{fa}/{fb}", [va, vb], lambda f=f: f(va, vb), dict(base, op=name, bb=bb, fb=fb, sysB=list(psys)))
    res.sample({"kind": "operators", "sys": list(system), "unary_forms": [n for n, _ in OPERATORS1], "binary_forms": [n for n, _ in OPERATORS2], "pairings": 16})


def run_shard(shard, tier):
    res = Result()
    if shard["kind"] == "ops":
        run_ops(res, shard, tier)
    elif shard["kind"] == "operators":
        run_operators(res, shard["dim"], tuple(shard["sys"]), tier)
    else:
        run_misc(res, shard["dim"], tuple(shard["sys"]), tier)
    return res


def replay(case):
    res = Result()
    if case["kind"] == "misc":
        run_misc(res, case["dim"], tuple(case["sys"]), "thorough")
        return res
    if case["kind"] == "operators":
        run_operators(res, case["dim"], tuple(case["sys"]), "thorough")
        return res
    op = BY_KEY[case["op"]]
    sa = tuple(case["sysA"])
    sb = tuple(case["sysB"]) if case.get("sysB") else None
    shard = {"op": case["op"], "dimA": len(sa) + 1, "dimB": (len(sb) + 1 if sb else None), "sysA": list(sa)}
    run_ops(res, shard, "thorough")
    return res
