"""C14 — momentum names are exact synonyms of the geometric names.

Exhaustive over the synonym table x every backend (object getters and setters at float64
and 60 digits, NumPy attribute / item access and item assignment, Awkward array and
record attributes and construction, SymPy) x every coordinate system x the operand
alphabet; the 20 momentum to_* spellings against their geometric counterparts; and
"flavor never changes a number" for every catalogued operation.
"""

from __future__ import annotations

import copy

import mpmath
import numpy as np
from mpmath import mpf

from .. import alphabet as A
from .. import build as B
from .. import lattice as L
from .. import sweep as S
from ..alphabet import Vec
from ..catalogue import OPS
from ..result import Result
from .C04 import GEN, MOM
from .C05 import scalars_for

import awkward as ak  # noqa: E402
import sympy  # noqa: E402
import vector  # noqa: E402

ID = "C14"
RULE = (
    "cases = clause x backend x coordinate system x synonym (or operation, for the flavor clause) x operand; each case compares an access / assignment / "
    "conversion / operation through the momentum spelling with the same through the geometric name; non-trivial = both sides returned (or both raised) and were "
    "compared; distinct = distinct (clause, backend, system, name, operand)"
)
ASSUMPTIONS = [
    "differential oracle: a synonym is indistinguishable from the geometric name when both give bit-identical values (same mpf / same expression for 60-digit and SymPy vectors) or raise the same exception type; after an assignment the two objects must be identical",
    "raw Awkward arrays (ak.Array(records, with_name='Momentum<N>D') with momentum-spelled fields, the route docs/src/make_awkward.md documents) are compared, through every coordinate getter, the class name and a carried non-coordinate field, with the same array spelled geometrically, after each of ~17 single-vector operations followed by each of 5 second steps",
    "the synonym table is read from vector._methods._repr_momentum_to_generic and joined with the derived synonyms of the statement",
]
CAP_S = {"quick": 900, "thorough": 3600}

DERIVED = {
    2: {"px": "x", "py": "y", "pt": "rho", "pt2": "rho2"},
    3: {"pz": "z", "p": "mag", "p2": "mag2", "pseudorapidity": "eta"},
    4: {"E": "t", "e": "t", "energy": "t", "E2": "t2", "e2": "t2", "energy2": "t2", "M": "tau", "m": "tau", "mass": "tau", "M2": "tau2", "m2": "tau2", "mass2": "tau2"},
}
GROUPS4 = [("Et", "et", "transverse_energy"), ("Et2", "et2", "transverse_energy2"), ("Mt", "mt", "transverse_mass"), ("Mt2", "mt2", "transverse_mass2")]
SETTABLE = {"px": "x", "py": "y", "pt": "rho", "pz": "z", "E": "t", "e": "t", "energy": "t", "M": "tau", "m": "tau", "mass": "tau"}


def synonyms(dim):
    out = {}
    for d in (2, 3, 4):
        if d <= dim:
            out.update(DERIVED[d])
    return out


def bounds(tier):
    return {"tier": tier, "systems": 20, "backends": ["OBJ float64", "MP 60 digits", "NP", "AKA", "AKR", "SymPy"], "synonyms": sum(len(v) for v in DERIVED.values()) + 8,
            "to_spellings": 20, "operations_for_flavor_clause": len(OPS)}


def shards(tier):
    out = []
    for dim in (2, 3, 4):
        for s in L.SYSTEMS[dim]:
            for k in range(3):
                out.append({"dim": dim, "sys": list(s), "part": "raw_awkward", "layout": k})
            out.append({"dim": dim, "sys": list(s), "part": "main"})
    out.sort(key=lambda sh: (sh["part"] != "raw_awkward", -sh["dim"]))
    return out


def _nan_eq(a, b):
    """equality of nested python values in which NaN equals NaN"""
    if isinstance(a, (list, tuple)) and isinstance(b, (list, tuple)):
        return len(a) == len(b) and all(_nan_eq(x, y) for x, y in zip(a, b))
    if isinstance(a, dict) and isinstance(b, dict):
        return a.keys() == b.keys() and all(_nan_eq(a[k], b[k]) for k in a)
    if isinstance(a, float) and isinstance(b, float):
        return a == b or (a != a and b != b)
    if isinstance(a, mpf) and isinstance(b, mpf):
        return a == b or (mpmath.isnan(a) and mpmath.isnan(b))
    return type(a) is type(b) and a == b


def _same(a, b):
    """bit-identical values / identical structures (NaN equals NaN)"""
    if isinstance(a, (ak.Array, ak.Record)) or isinstance(b, (ak.Array, ak.Record)):
        return type(a) is type(b) and _nan_eq(ak.to_list(a), ak.to_list(b)) and str(ak.type(a)) == str(ak.type(b))
    if isinstance(a, (list, tuple, mpf)) or isinstance(b, (list, tuple, mpf)):
        return _nan_eq(a, b)
    if isinstance(a, np.ndarray) or isinstance(b, np.ndarray):
        return type(a) is type(b) and a.dtype == b.dtype and a.shape == b.shape and a.tobytes() == b.tobytes()
    if isinstance(a, vector.Vector) or isinstance(b, vector.Vector):
        return type(a) is type(b) and L.system_of(a) == L.system_of(b)
    if isinstance(a, float) and isinstance(b, float):
        return a == b or (a != a and b != b)
    if isinstance(a, sympy.Basic) or isinstance(b, sympy.Basic):
        return a == b
    return type(a) is type(b) and a == b


def _try(f):
    try:
        return ("ok", f())
    except Exception as e:  # noqa: BLE001
        return ("raise", type(e).__name__)


def _vectors(dim, tier):
    vs = [v for v in A.vectors(dim, tier) if not v.has("negtime")]
    if tier == "thorough":
        return vs
    # quick: every fourth vector, plus one representative of every stratum (space-like kinds are stored with a negative tau /
    # mass, near-axis and non-canonical azimuth have their own code paths in the accessors)
    pick = vs[::4][:6]
    for tag in ("spacelike", "spacelike_tltz", "fast", "near_axis", "wildphi"):
        pick += [v for v in vs if v.has(tag) and v not in pick][:1]
    return pick


def check(res: Result, dim, system, tier, only=None, raw_layout=None):
    syn = synonyms(dim)
    sysn = L.sysname(system)

    def compare(clause, backend, name, fa, fb, case):
        if only is not None and only != clause and only != "!raw_awkward":
            return
        res.states += 1
        res.transitions += 2
        res.traces += 1
        res.evaluations += 1
        ra, rb = _try(fa), _try(fb)
        if ra[0] != rb[0] or (ra[0] == "raise" and ra[1] != rb[1]):
            res.violation(f"{clause}|{backend}|{name}|{sysn}", f"{name}: synonym gives {ra}, geometric name gives {rb}", case)
        elif ra[0] == "ok" and not _same(ra[1], rb[1]):
            res.violation(f"{clause}|{backend}|{name}|{sysn}", f"{name}: synonym gives {ra[1]!r}, geometric name gives {rb[1]!r}", case)
        else:
            res.nontrivial += 1
            if ra[0] == "raise":
                res.count("both_raise_same_exception")

    vs = _vectors(dim, tier)
    rows = []
    for v in vs:
        st = S.stored(v, system)
        if st is None:
            continue
        rows.append((v, tuple(float(x) for x in st), st))
    if not rows:
        return
    frows = [r[1] for r in rows]

    # ------------------------------------------------------------------ getters on every backend
    mom_np = B.make_np(system, "momentum", frows)
    mom_ak = B.make_ak(system, "momentum", frows, "jagged")
    for v, fst, st in rows:
        objs = {
            "OBJ": B.make_obj(system, "momentum", fst),
            "MP": S.build_mp(v, system, "momentum"),
            "AKR": B.make_akr(system, "momentum", fst),
        }
        for bname, o in objs.items():
            case = {"clause": "getter", "backend": bname, "v": list(v.comps), "sys": list(system)}
            for s, g in syn.items():
                compare("getter", bname, s, lambda o=o, s=s: getattr(o, s), lambda o=o, g=g: getattr(o, g), dict(case, name=s))
            if dim == 4:
                for grp in GROUPS4:
                    for s in grp[1:]:
                        compare("getter", bname, s, lambda o=o, s=s: getattr(o, s), lambda o=o, g=grp[0]: getattr(o, g), dict(case, name=s))
    for bname, arr in (("NP", mom_np), ("AKA", mom_ak)):
        case = {"clause": "getter", "backend": bname, "sys": list(system), "rows": len(frows)}
        for s, g in syn.items():
            compare("getter", bname, s, lambda arr=arr, s=s: getattr(arr, s), lambda arr=arr, g=g: getattr(arr, g), dict(case, name=s))
        if dim == 4:
            for grp in GROUPS4:
                for s in grp[1:]:
                    compare("getter", bname, s, lambda arr=arr, s=s: getattr(arr, s), lambda arr=arr, g=grp[0]: getattr(arr, g), dict(case, name=s))

    # ------------------------------------------------------------------ SymPy
    symnames = L.field_names(system)
    syms = sympy.symbols(" ".join(symnames), real=True)
    cls = {2: vector.MomentumSympy2D, 3: vector.MomentumSympy3D, 4: vector.MomentumSympy4D}[dim]
    sv = cls(**dict(zip(symnames, syms)))
    case = {"clause": "getter", "backend": "SymPy", "sys": list(system)}
    for s, g in syn.items():
        compare("getter", "SymPy", s, lambda s=s: getattr(sv, s), lambda g=g: getattr(sv, g), dict(case, name=s))
    if dim == 4:
        for grp in GROUPS4:
            for s in grp[1:]:
                compare("getter", "SymPy", s, lambda s=s: getattr(sv, s), lambda g=grp[0]: getattr(sv, g), dict(case, name=s))

    # ------------------------------------------------------------------ setters on objects (float64, 60 digits, SymPy)
    for v, fst, st in rows[:3]:
        for s, g in SETTABLE.items():
            if g in ("z",) and dim < 3 or g in ("t", "tau") and dim < 4:
                continue
            for bname in ("OBJ", "MP"):
                case = {"clause": "setter", "backend": bname, "v": list(v.comps), "sys": list(system), "name": s}

                def setvia(name, bname=bname, v=v, fst=fst):
                    o = B.make_obj(system, "momentum", fst) if bname == "OBJ" else S.build_mp(v, system, "momentum")
                    setattr(o, name, 2.625 if bname == "OBJ" else mpf(2.625))
                    return o

                compare("setter", bname, s, lambda s=s: setvia(s), lambda g=g: setvia(g), case)
    z = sympy.Symbol("newvalue", real=True)
    for s, g in SETTABLE.items():
        if g in ("z",) and dim < 3 or g in ("t", "tau") and dim < 4:
            continue

        def setsym(name):
            o = cls(**dict(zip(symnames, syms)))
            setattr(o, name, z)
            return tuple(o.azimuthal.elements) + (tuple(o.longitudinal.elements) if dim > 2 else ()) + (tuple(o.temporal.elements) if dim > 3 else ()) + (type(o.azimuthal).__name__,)

        compare("setter", "SymPy", s, lambda s=s: setsym(s), lambda g=g: setsym(g), {"clause": "setter", "backend": "SymPy", "sys": list(system), "name": s})

    # ------------------------------------------------------------------ getters after assignments (one object: read, assign, read again)
    if only in (None, "!raw_awkward", "getter_after_assignment"):
        assignable = [c for c in ("x", "y", "rho", "phi", "z", "theta", "eta", "t", "tau") if not (c in ("z", "theta", "eta") and dim < 3 or c in ("t", "tau") and dim < 4)]
        assignable += [n for n, g in SETTABLE.items() if g in assignable]
        for v, fst, st in rows[:2]:
            for cname in assignable:
                o = B.make_obj(system, "momentum", fst)
                try:
                    for s_ in list(syn) + [g_[1] for g_ in GROUPS4 if dim == 4]:
                        getattr(o, s_)  # first read: whatever an implementation may remember is remembered now
                    setattr(o, cname, 1.4375 if SETTABLE.get(cname, cname) not in ("theta",) else 0.8125)
                except Exception:  # noqa: BLE001
                    continue
                case = {"clause": "getter_after_assignment", "backend": "OBJ", "v": list(v.comps), "sys": list(system), "assigned": cname}
                for s_, g_ in syn.items():
                    compare("getter_after_assignment", "OBJ", f"{s_} after {cname}=", lambda o=o, s_=s_: getattr(o, s_), lambda o=o, g_=g_: getattr(o, g_), dict(case, name=s_))
                if dim == 4:
                    for grp in GROUPS4:
                        for s_ in grp[1:]:
                            compare("getter_after_assignment", "OBJ", f"{s_} after {cname}=", lambda o=o, s_=s_: getattr(o, s_), lambda o=o, g_=grp[0]: getattr(o, g_), dict(case, name=s_))

    # ------------------------------------------------------------------ NumPy item access / assignment
    stored_names = L.field_names(system)
    stored_mom = L.field_names(system, "momentum")
    for gname, mname in zip(stored_names, stored_mom):
        alts = [n for n, g in SETTABLE.items() if g == gname]
        for s in alts:
            case = {"clause": "item", "backend": "NP", "sys": list(system), "name": s}
            compare("item_get", "NP", s, lambda s=s: mom_np[s], lambda g=gname: mom_np[g], case)

            def setcol(name):
                a = B.make_np(system, "momentum", frows)
                a[name] = np.arange(len(frows), dtype=np.float64) + 0.5
                return a

            compare("item_set", "NP", s, lambda s=s: setcol(s), lambda g=gname: setcol(g), case)

            def setslice(spelling):
                a = B.make_np(system, "momentum", frows)
                names = [(s if (n == gname and spelling == "syn") else n) for n in stored_names]
                what = np.zeros(2, dtype=[(n, np.float64) for n in names])
                for i, n in enumerate(names):
                    what[n] = [10.0 + i, 20.0 + i]
                a[:2] = what
                return a

            if len(frows) >= 2:
                compare("slice_set", "NP", s, lambda: setslice("syn"), lambda: setslice("gen"), case)

    # ------------------------------------------------------------------ construction through either spelling
    for v, fst, st in rows[:2]:
        gk = dict(zip(stored_names, fst))
        for i, gname in enumerate(stored_names):
            for s in [n for n, g in SETTABLE.items() if g == gname]:
                mk = dict(gk)
                mk[s] = mk.pop(gname)
                base_m = dict(zip(stored_mom, fst))  # canonical momentum spelling
                case = {"clause": "construct", "sys": list(system), "name": s, "v": list(v.comps)}
                compare("construct", "obj", s, lambda mk=mk: L.system_of(vector.obj(**mk)) + (type(vector.obj(**mk)).__name__,),
                        lambda: L.system_of(vector.obj(**base_m)) + (type(vector.obj(**base_m)).__name__,), case)
                compare("construct", "array", s, lambda mk=mk: vector.array({k: np.array([x]) for k, x in mk.items()}),
                        lambda: vector.array({k: np.array([x]) for k, x in base_m.items()}), case)
                compare("construct", "Array", s, lambda mk=mk: vector.Array([mk]), lambda: vector.Array([base_m]), case)
                compare("construct", "zip", s, lambda mk=mk: vector.zip({k: ak.Array([x]) for k, x in mk.items()}),
                        lambda: vector.zip({k: ak.Array([x]) for k, x in base_m.items()}), case)

    # ------------------------------------------------------------------ momentum to_* spellings
    for tdim in (2, 3, 4):
        for tsys in L.SYSTEMS[tdim]:
            fields = L.field_names(tsys)
            gname = "to_" + "".join(GEN[f] for f in fields)
            mname = "to_" + "".join(MOM[f] for f in fields)
            for vbase, vtag in ((0.8125, ""), (0.0, ";zero")):
                kw_g = {GEN[f]: vbase * (1 + i) for i, f in enumerate(fields[2:]) if (f in ("z", "theta", "eta") and dim < 3) or (f in ("t", "tau") and dim < 4)}
                kw_m = {MOM[f]: vbase * (1 + i) for i, f in enumerate(fields[2:]) if (f in ("z", "theta", "eta") and dim < 3) or (f in ("t", "tau") and dim < 4)}
                if vtag and not kw_g:
                    continue
                for bname, o in (("OBJ", B.make_obj(system, "momentum", frows[0])), ("NP", mom_np), ("AKA", mom_ak), ("MP", S.build_mp(rows[0][0], system, "momentum"))):
                    kg = {k: (mpf(x) if bname == "MP" else x) for k, x in kw_g.items()}
                    km = {k: (mpf(x) if bname == "MP" else x) for k, x in kw_m.items()}
                    compare("to_spelling", bname, mname + vtag, lambda o=o, km=km: getattr(o, mname)(**km), lambda o=o, kg=kg: getattr(o, gname)(**kg),
                            {"clause": "to_spelling", "backend": bname, "sys": list(system), "name": mname + vtag})
    # every temporal / longitudinal keyword spelling of the dimension-raising calls, with an ordinary and a zero value
    if dim < 4:
        tspell = {"t": ["e", "E", "energy"], "tau": ["m", "M", "mass"]}
        for g, syns in tspell.items():
            for sname in syns:
                for val in (1.375, 0.0, 0):
                    for meth in ("to_Vector4D", "to_4D"):
                        for bname, o in (("OBJ", B.make_obj(system, "momentum", frows[0])), ("NP", mom_np), ("AKA", mom_ak)):
                            compare("embedding_keyword", bname, f"{meth}({sname}={val!r})", lambda o=o, meth=meth, sname=sname, val=val: getattr(o, meth)(**{sname: val}),
                                    lambda o=o, meth=meth, g=g, val=val: getattr(o, meth)(**{g: val}), {"clause": "embedding_keyword", "backend": bname, "sys": list(system), "name": f"{meth}({sname}={val!r})"})
    if dim < 3:
        for val in (1.375, 0.0):
            for meth in ("to_Vector3D", "to_3D", "to_Vector4D"):
                for bname, o in (("OBJ", B.make_obj(system, "momentum", frows[0])), ("NP", mom_np), ("AKA", mom_ak)):
                    compare("embedding_keyword", bname, f"{meth}(pz={val!r})", lambda o=o, meth=meth, val=val: getattr(o, meth)(pz=val), lambda o=o, meth=meth, val=val: getattr(o, meth)(z=val),
                            {"clause": "embedding_keyword", "backend": bname, "sys": list(system), "name": f"{meth}(pz={val!r})"})

    # ------------------------------------------------------------------ Awkward arrays whose records *spell* their fields as momenta
    if only in (None, "raw_awkward"):
        check_raw_awkward(res, dim, system, frows, tier, raw_layout)
        if only == "raw_awkward":
            return

    # ------------------------------------------------------------------ the flavor never changes a number
    partner = A.partners(dim, tier)[0]
    for op in OPS:
        if dim not in op.dims or op.momentum_only:
            continue
        dimB = None
        if op.other is not None:
            dimB = dim if op.other == "same" else (dim if dim in op.other else op.other[0])
        s_ = scalars_for(op)
        for bname in ("OBJ", "NP"):
            for v, fst, st in rows[:2]:
                if bname == "OBJ":
                    vm, vg = B.make_obj(system, "momentum", fst), B.make_obj(system, "generic", fst)
                else:
                    vm, vg = B.make_np(system, "momentum", frows), B.make_np(system, "generic", frows)
                others_m, others_g = [], []
                if dimB is not None:
                    pb = A.partners(dimB, tier)[0] if op.name not in ("boost_beta3", "boostCM_of_beta3") and not (op.name in ("boost", "boostCM_of") and dimB == 3) else S._beta3_partners(tier)[0]
                    pst = tuple(float(x) for x in S.stored(pb, L.CART[dimB]))
                    ob = B.make_obj(L.CART[dimB], "generic", pst)
                    others_m = others_g = [ob]

                def num(r):
                    if isinstance(r, vector.Vector):
                        return B.result_rows(r)[1:2] + (B.result_rows(r)[3],)
                    return B.scalar_values(r)[0]

                compare("flavor_changes_no_number", bname, op.key, lambda: num(op.call(vm, others_m, s_)), lambda: num(op.call(vg, others_g, s_)),
                        {"clause": "flavor_changes_no_number", "backend": bname, "sys": list(system), "name": op.key, "v": list(v.comps)})
                if bname == "NP":
                    break
    res.sample({"sys": list(system), "synonyms": sorted(syn), "operands": len(rows)})


SPELLINGS = {"x": ["px"], "y": ["py"], "rho": ["pt"], "phi": [], "z": ["pz"], "theta": [], "eta": [], "t": ["E", "e", "energy"], "tau": ["M", "m", "mass"]}
COORD_GETTERS = {2: ["x", "y", "rho", "phi", "px", "py", "pt"], 3: ["z", "theta", "eta", "pz", "mag", "p"], 4: ["t", "tau", "E", "e", "energy", "M", "m", "mass"]}


def _raw_spellings(system, tier):
    """field-name tuples for a system: every coordinate spelled generically or through any of its synonyms (the full
    product in thorough; in quick one coordinate at a time, all canonical momentum names, and the first synonym of each)"""
    gen = L.field_names(system)
    opts = [[g] + SPELLINGS[g] for g in gen]
    import itertools

    full = [t for t in itertools.product(*opts) if t != tuple(gen)]
    if tier == "thorough":
        return full
    keep = []
    for i, g in enumerate(gen):
        for sname in SPELLINGS[g]:
            t = list(gen)
            t[i] = sname
            keep.append(tuple(t))
    keep.append(tuple(L.field_names(system, "momentum")))
    keep.append(tuple((SPELLINGS[g][-1] if SPELLINGS[g] else g) for g in gen))
    return [t for t in dict.fromkeys(keep) if t in full]


def check_raw_awkward(res: Result, dim, system, frows, tier, raw_layout=None):
    """The documented native route: ak.Array(records, with_name="Momentum<N>D") with the fields spelled px, py, pt, pz, E, e,
    energy, M, m, mass (any mixture) is, value for value, the array whose fields carry the geometric names: after any
    single-vector operation and a following conversion too (a result must hold its own coordinates only)."""
    gen = L.field_names(system)
    sysn = L.sysname(system)
    beh = vector.backends.awkward.behavior
    rows = frows[:4]

    def build(names, layout, record=False):
        recs = [dict(zip(names, r), charge=i + 1) for i, r in enumerate(rows)]
        if layout == "jagged":
            recs = [recs[:1], [], recs[1:]]
        a = ak.Array(recs, with_name=f"Momentum{dim}D", behavior=beh)
        return a[0] if record else a

    first_ops = [("identity", lambda v: v), ("neg", lambda v: -v), ("scale(-2)", lambda v: v.scale(-2.0)), ("mul(3)", lambda v: v * 3.0), ("rotateZ(0.5)", lambda v: v.rotateZ(0.5)),
                 ("to_Vector2D", lambda v: v.to_Vector2D()), (f"to_Vector{dim}D", lambda v: getattr(v, f"to_Vector{dim}D")()), ("unit", lambda v: v.unit()),
                 ("to_own", lambda v: getattr(v, "to_" + "".join(gen))()), ("to_xy*", lambda v: getattr(v, "to_" + "".join(L.field_names(("xy",) + tuple(system[1:]))))()),
                 ("to_rhophi*", lambda v: getattr(v, "to_" + "".join(L.field_names(("rhophi",) + tuple(system[1:]))))())]
    if dim >= 3:
        first_ops += [("rotateX(0.5)", lambda v: v.rotateX(0.5)), ("to_Vector3D", lambda v: v.to_Vector3D()),
                      ("rotate_axis", lambda v: v.rotate_axis(vector.obj(x=0.5, y=-1.0, z=2.0), 0.75))]
    if dim == 4:
        first_ops += [("boostX(0.25)", lambda v: v.boostX(0.25)), ("boostZ(gamma)", lambda v: v.boostZ(gamma=1.5)), ("to_Vector4D", lambda v: v.to_Vector4D())]
    second_ops = [("", lambda v: v), (".to_rhophi", lambda v: v.to_rhophi()), (".to_xy", lambda v: v.to_xy()), (".scale(2)", lambda v: v.scale(2.0)), (".rotateZ(-1)", lambda v: v.rotateZ(-1.0))]
    getters = [g for d in (2, 3, 4) if d <= dim for g in COORD_GETTERS[d]]

    def observe(r):
        """what a user can read: record name (class / dimension), every coordinate getter, the non-coordinate field"""
        out = {"type": type(r).__name__}
        for g in getters + ["charge"]:
            try:
                out[g] = ak.to_list(getattr(r, g))
            except Exception as e:  # noqa: BLE001
                out[g] = "raises " + type(e).__name__
        return out

    for li, (layout, record) in enumerate((("flat", False), ("jagged", False), ("flat", True))):
        if raw_layout is not None and li != raw_layout:
            continue
        try:
            ref_arr = build(gen, layout, record)
        except Exception:  # noqa: BLE001
            continue
        refs = {}
        for names in _raw_spellings(system, tier):
            arr = build(names, layout, record)
            for n1, f1 in first_ops:
                for n2, f2 in second_ops:
                    label = n1 + n2
                    res.states += 1
                    res.transitions += 2
                    res.traces += 1
                    res.evaluations += 1
                    case = {"clause": "raw_awkward", "sys": list(system), "fields": list(names), "layout": layout, "record": record, "call": label}
                    if label not in refs:
                        refs[label] = _try(lambda: observe(f2(f1(ref_arr))))
                    got = _try(lambda: observe(f2(f1(arr))))
                    want = refs[label]
                    spelled = "+".join(n for n, g in zip(names, gen) if n != g)
                    cls_ = f"raw_awkward|{'AKR' if record else 'AKA'}|{n1}|{sysn}|{spelled}"
                    if got[0] != want[0] or (got[0] == "raise" and got[1] != want[1]):
                        res.violation(cls_, f"{label} on fields {names}: {got}, with the geometric field names {gen}: {want}", case)
                    elif got[0] == "ok" and not _nan_eq(got[1], want[1]):
                        diff = {k: (got[1][k], want[1][k]) for k in got[1] if not _nan_eq(got[1][k], want[1][k])}
                        res.violation(cls_, f"{label} on an array with fields {names} differs from the same array with the geometric field names {gen}: " + "; ".join(f"{k}: {a!r} vs {b!r}" for k, (a, b) in list(diff.items())[:3]), case)
                    else:
                        res.nontrivial += 1


def run_shard(shard, tier):
    res = Result()
    check(res, shard["dim"], tuple(shard["sys"]), tier, only="raw_awkward" if shard["part"] == "raw_awkward" else "!raw_awkward", raw_layout=shard.get("layout"))
    return res


def replay(case):
    res = Result()
    system = tuple(case["sys"])
    check(res, len(system) + 1, system, "thorough", only=case.get("clause") if case.get("clause") not in ("item",) else None)
    return res
