"""C02 — every operation computes its documented mathematical definition.

Same lattice as C01, but the result of *every* signature (the Cartesian one included) is
compared with M_geo, the independent reference written from the documentation
(mc/model.py): at L1 (60 digits, through the real dispatch path) wherever the definition
is finite, and at L2 (ordinary float64 object vectors) on the well-conditioned alphabet,
where the reference is evaluated on the exact geometric vector denoted by the rounded
stored inputs.
"""

from __future__ import annotations

import math

import mpmath
from mpmath import mpf

from .. import alphabet as A
from .. import lattice as L
from .. import model as G
from .. import sweep as S
from ..alphabet import Vec
from ..catalogue import BY_KEY, OPS
from ..result import Result
from .C01 import MARGIN_L1, MARGIN_L2, _strata, call, result_representable

ID = "C02"
RULE = (
    "cases = operation x signature x flavor x operand tuple x scalar arguments x layer (L1 exact / L2 float64); a case is "
    "non-trivial when the documented definition is finite there, operands and exact result are representable, and the value "
    "was compared with the reference model; distinct = distinct (layer, operation, signature, flavor, operands, scalars)"
)
ASSUMPTIONS = [
    "M_geo (mc/model.py) is the documented definition: Cartesian/polar/eta/tau relations, (-,-,-,+) metric, active right-handed rotations, active boosts, rotate_euler('abc') = R_a(-psi) R_b(-theta) R_c(-phi), ROOT quaternion matrix, deltaphi wrapped to [-pi,pi)",
    "L1: 60-digit arithmetic through a subclass of the object backend, agreement to 1e-40; L2: float64 object backend on the well-conditioned strata (no near-axis, no near-light-cone), agreement to 1e-9 relative unless explained by an explicit +-1ulp conditioning estimate",
    "outside the domain where the definition is finite (|beta| >= 1, eta on the axis, unit of a null vector, rapidity with |z| >= t ...) nothing is asserted",
    "NumPy / Awkward float64 results are tied to the object backend by C03",
]
CAP_S = {"quick": 1500, "thorough": 7200}
EXCLUDE = {"equal", "not_equal"}
TOL_L2 = 1e-9


def bounds(tier):
    return {
        "tier": tier,
        "vectors_2D": len(S.A.vectors(2, tier)),
        "vectors_3D": len(S.A.vectors(3, tier)),
        "vectors_4D": len(S.A.vectors(4, tier)),
        "signatures": "all",
        "layers": "L1 (60 digits, 1e-40) on all strata; L2 (float64, 1e-9 + conditioning) on well-conditioned strata",
    }


def shards(tier):
    out = []
    for op in OPS:
        if op.name in EXCLUDE:
            continue
        for dimA in op.dims:
            for dimB in S.second_dims(op, dimA):
                if dimB is not None and dimA == 4 and dimB == 4:
                    for sa in L.SYSTEMS[4]:
                        out.append({"op": op.key, "dimA": dimA, "dimB": dimB, "sysA": list(sa)})
                else:
                    out.append({"op": op.key, "dimA": dimA, "dimB": dimB})
    return out


def expected(op, ga, gb, ms):
    """M_geo value or None when the definition is not finite there."""
    try:
        v = G.GEO[op.geo]([ga] + ([gb] if gb is not None else []), ms)
    except (G.Undefined, ZeroDivisionError):
        return None
    if isinstance(v, tuple):
        if not all(mpmath.isfinite(c) for c in v):
            return None
    elif not isinstance(v, bool) and not mpmath.isfinite(v):
        return None
    return v


def compare(res, op, out, exp, va, scale, cls_base, case, tol, dimA, margin=MARGIN_L1):
    """Compare one implementation result with the reference value.  Returns a
    message on disagreement, 'skip' when not decidable, None when equal."""
    if out[0] in ("raise", "zerodiv"):
        return f"{op.key} raised {out[1]} where the documented definition is finite"
    if out[0] == "bool":
        return None if out[1] == bool(exp) else f"{op.key} = {out[1]}, definition gives {bool(exp)}"
    if out[0] == "scalar":
        x = out[1]
        sc = scale ** op.degree if op.degree else mpf(1)
        if S.close(x, exp, sc, tol):
            return None
        if op.name in ("phi", "deltaphi") and S.angle_close(x, exp, tol):
            return None
        return f"{op.key} = {mpmath.nstr(x, 25)}, definition gives {mpmath.nstr(exp, 25)}"
    _, rsys, rst, rcart = out
    if op.partial and dimA > op.partial:
        n = op.partial
        head_sys = rsys[: (1 if n == 2 else 2)]
        head = G.from_stored(head_sys, rst[:n])
        if not result_representable(exp[:n], head_sys, scale, margin):
            return "skip"
        if head is None or not S.vec_close(head, exp[:n], scale, tol):
            return f"{op.key}: transformed part {head and [mpmath.nstr(v, 20) for v in head]}, definition gives {[mpmath.nstr(v, 20) for v in exp[:n]]}"
        in_sys, in_st = L.system_of(va)
        if rsys[len(head_sys):] != in_sys[len(head_sys):] or any(p != q for p, q in zip(rst[n:], in_st[n:])):
            return f"{op.key}: stored higher coordinates not passed through"
        return None
    if not result_representable(exp, rsys, scale, margin):
        return "skip"
    sc = scale**2 if op.degree == 2 else scale
    if rcart is None or not S.vec_close(rcart, exp, sc, tol):
        return f"{op.key}: {rcart and [mpmath.nstr(v, 20) for v in rcart]} (returned as {L.sysname(rsys)}), definition gives {[mpmath.nstr(v, 20) for v in exp]}"
    return None


def _well_conditioned(a: Vec, b):
    bad = ("near_axis", "fast", "boundary")
    if any(a.has(t) for t in bad):
        return False
    if b is not None and any(b.has(t) for t in bad + ("parallel", "antiparallel", "same")):
        return False
    return True


def _float_call(op, a, sa, b, sb, flavor, fs):
    """float64 object-backend call; returns (out, exact geometric operands denoted by the
    rounded stored inputs, first operand object)."""
    va, sta = S.build_float(a, sa, flavor)
    if va is None:
        return None
    ga = G.from_stored(sa, sta)
    others, gb = [], None
    if b is not None:
        vb, stb = S.build_float(b, sb, "generic")
        if vb is None:
            return None
        gb = G.from_stored(sb, stb)
        others = [vb]
    if ga is None or (b is not None and gb is None):
        return None
    try:
        r = op.call(va, others, fs)
        if op.ret == "vec":
            system, st = L.system_of(r)
            st = tuple(mpf(float(v)) for v in st)
            out = ("vec", system, st, G.from_stored(system, st))
        elif op.ret == "bool":
            out = ("bool", bool(r))
        else:
            out = ("scalar", mpf(float(r)))
    except Exception as e:  # noqa: BLE001
        out = ("raise", f"{type(e).__name__}: {e}")
    return out, ga, gb, va, (sta, stb if b is not None else None)


def _conditioning_explains(op, sa, sb, stored_pair, ms, out, exp, scale):
    """Spread of M_geo over +-1 ulp perturbations of each stored input, x256."""
    sta, stb = stored_pair
    base = []
    for sysx, st in ((sa, sta), (sb, stb)):
        if st is not None:
            base.append((sysx, list(st)))
    spread = mpf(0)
    for which, (sysx, st) in enumerate(base):
        for i in range(len(st)):
            for sgn in (1, -1):
                st2 = list(st)
                st2[i] = math.nextafter(st[i], math.inf * sgn)
                gs = []
                for w2, (sy, s0) in enumerate(base):
                    gs.append(G.from_stored(sy, st2 if w2 == which else s0))
                if any(g is None for g in gs):
                    return True  # perturbation leaves the domain: ill-conditioned
                e2 = expected(op, gs[0], gs[1] if len(gs) > 1 else None, ms)
                if e2 is None:
                    return True
                if isinstance(exp, tuple):
                    d = max(abs(p - q) for p, q in zip(e2, exp))
                elif isinstance(exp, bool):
                    if e2 != exp:
                        return True
                    d = mpf(0)
                else:
                    d = abs(e2 - exp)
                spread = max(spread, d)
    # observed deviation
    if out[0] == "scalar":
        dev = abs(out[1] - exp)
    elif out[0] == "vec" and out[3] is not None and not (op.partial):
        dev = max(abs(p - q) for p, q in zip(out[3], exp))
    else:
        return False
    return dev <= 256 * spread + mpf(2) ** -40 * scale


def check_case(res: Result, op, a, b, s, sa, sb, flavor, layers=("L1", "L2")):
    ms = S.mp_scalars(s)
    dimA = a.dim
    case = {
        "op": op.key, "flavor": flavor, "a": list(a.comps), "b": list(b.comps) if b is not None else None,
        "scalars": s, "sysA": list(sa), "sysB": list(sb) if sb is not None else None,
    }
    cls_base = f"{op.key}|{L.sysname(sa)}" + (f"|{L.sysname(sb)}" if sb is not None else "") + f"|{_strata(a, b)}"
    scale = S.case_scale(op, a, b, s)
    if "L1" in layers:
        res.states += 1
        exp = expected(op, a.mp(), b.mp() if b is not None else None, ms)
        if exp is None:
            res.count("definition_not_finite")
        else:
            out, va, _ = call(op, a, sa, b, sb, flavor, ms)
            if out[0] == "unrepresentable":
                res.count("operand_not_representable")
            else:
                res.transitions += 1
                res.evaluations += 1
                msg = compare(res, op, out, exp, va, scale, cls_base, case, S.TOL_L1, dimA)
                if msg == "skip":
                    res.count("result_not_representable")
                else:
                    res.traces += 1
                    if msg is None:
                        res.nontrivial += 1
                    else:
                        res.violation(f"{cls_base}|L1", msg, dict(case, layer="L1"))
    if "L2" in layers and _well_conditioned(a, b):
        res.states += 1
        fs = S.float_scalars(s)
        fc = _float_call(op, a, sa, b, sb, flavor, fs)
        if fc is None:
            res.count("operand_not_representable")
            return
        out, ga, gb, va, stored_pair = fc
        # the float call receives float scalars; the reference gets the same exact values
        ms2 = S.mp_scalars(s)
        if "quat_spec" in s:
            ms2 = {k: mpf(v) for k, v in fs.items()}
        exp = expected(op, ga, gb, ms2)
        if exp is None:
            res.count("definition_not_finite")
            return
        res.transitions += 1
        res.evaluations += 1
        msg = compare(res, op, out, exp, va, scale, cls_base, case, mpf(TOL_L2), dimA, MARGIN_L2)
        if msg == "skip":
            res.count("result_not_representable")
            return
        res.traces += 1
        if msg is None:
            res.nontrivial += 1
            return
        if out[0] != "raise" and _conditioning_explains(op, sa, sb, stored_pair, ms2, out, exp, scale):
            res.count("dropped_ill_conditioned")
            return
        res.violation(f"{cls_base}|L2", msg + " [float64]", dict(case, layer="L2"))


# ------------------------------------------------------------------ float64 accuracy on operands of wide dynamic range
def _t_for(x, y, z, m):
    return math.sqrt(x * x + y * y + z * z + m * m)


WIDE4 = [
    Vec("fwd", (3.0, 4.0, 5.0 * 2**20, _t_for(3.0, 4.0, 5.0 * 2**20, 1.0)), {"wide"}),  # |z| / rho ~ 1e6, gamma ~ 5e6, mass 1
    Vec("bwd", (-3.0, 0.5, -7.0 * 2**18, _t_for(-3.0, 0.5, -7.0 * 2**18, 2.5)), {"wide"}),
    Vec("softrho", (3.0 * 2**-20, -4.0 * 2**-20, 1.5, 2.5), {"wide"}),  # rho / |z| ~ 3e-6, time-like
    Vec("bigrho", (3.0 * 2**20, -4.0 * 2**20, 2.0**-10, _t_for(3.0 * 2**20, -4.0 * 2**20, 2.0**-10, 3.0)), {"wide"}),  # eta ~ 2e-10
    Vec("smallphi", (2.0**20, 2.0**-5, -1.5, _t_for(2.0**20, 2.0**-5, -1.5, 0.75)), {"wide"}),  # phi ~ 3e-8
    Vec("rest", (3 * 2.0**-12, 4 * 2.0**-12, -5 * 2.0**-12, 8.0), {"wide"}),  # beta ~ 2e-4
]
EPS64 = mpf(2) ** -52
WIDE_K = 64


def wide_vectors(dim):
    return [Vec(w.name, w.comps[:dim], w.tags) for w in WIDE4]


def _ulp_spread_of_result(rsys, rst, rcart):
    """how far the Cartesian reading of a stored float64 result moves when one stored coordinate moves by one ulp: the
    rounding the result's own representation forces on it"""
    spread = mpf(0)
    for i in range(len(rst)):
        for sgn in (1, -1):
            st2 = list(rst)
            st2[i] = mpf(math.nextafter(float(rst[i]), math.inf * sgn))
            c = G.from_stored(rsys, tuple(st2))
            if c is None:
                return None
            spread = max(spread, max(abs(p - q) for p, q in zip(c, rcart)))
    return spread


def check_wide(res: Result, op, a, b, s, sa, sb, flavor):
    """The float64 clause of the statement on operands of wide dynamic range: the result must be within WIDE_K eps of the
    exact value of the stored operands, relative to the size of the result, unless +-1 ulp perturbations of the stored
    inputs (conditioning) or of the stored result coordinates (representation) account for the deviation."""
    if op.ret == "bool" or op.partial:
        return
    fs = S.float_scalars(s)
    fc = _float_call(op, a, sa, b, sb, flavor, fs)
    if fc is None:
        res.count("operand_not_representable")
        return
    out, ga, gb, va, stored_pair = fc
    ms2 = S.mp_scalars(s)
    if "quat_spec" in s:
        ms2 = {k: mpf(v) for k, v in fs.items()}
    exp = expected(op, ga, gb, ms2)
    res.states += 1
    if exp is None:
        res.count("definition_not_finite")
        return
    res.transitions += 1
    res.evaluations += 1
    case = {"op": op.key, "flavor": flavor, "a": list(a.comps), "b": list(b.comps) if b is not None else None, "scalars": s, "sysA": list(sa),
            "sysB": list(sb) if sb is not None else None, "layer": "L2w", "wide": a.name}
    cls = f"{op.key}|{L.sysname(sa)}" + (f"|{L.sysname(sb)}" if sb is not None else "") + f"|wide:{a.name}|L2w"
    if out[0] == "raise":
        res.traces += 1
        res.violation(cls, f"{op.key} raised {out[1]} where the documented definition is finite [float64, wide dynamic range]", case)
        return
    allowed_out = mpf(0)
    if out[0] == "scalar":
        dev, ref = abs(out[1] - exp), abs(exp)
        if op.name in ("phi", "deltaphi"):
            dev = min(dev, abs(abs(out[1] - exp) - 2 * G.PI))
    else:
        _, rsys, rst, rcart = out
        scale = S.case_scale(op, a, b, s)
        if not isinstance(exp, tuple) or rcart is None or len(rcart) != len(exp) or not result_representable(exp, rsys, scale, MARGIN_L2):
            res.count("result_not_representable")
            return
        dev, ref = max(abs(p - q) for p, q in zip(rcart, exp)), max(abs(q) for q in exp)
        allowed_out = _ulp_spread_of_result(rsys, rst, rcart)
        if allowed_out is None:
            res.count("result_not_representable")
            return
    res.traces += 1
    if dev <= WIDE_K * EPS64 * ref + 4 * allowed_out:
        res.nontrivial += 1
        return
    if _conditioning_explains_dev(op, sa, sb, stored_pair, ms2, exp, dev - 4 * allowed_out):
        res.count("dropped_ill_conditioned")
        return
    res.violation(cls, f"{op.key}: float64 result deviates from the exact value of the stored operands by {mpmath.nstr(dev / ref if ref else dev, 3)} (relative), "
                       f"more than {WIDE_K} eps and more than +-1 ulp of any stored input or result coordinate explains; exact {mpmath.nstr(exp if not isinstance(exp, tuple) else list(exp), 17)}, "
                       f"got {mpmath.nstr(out[1], 17) if out[0] == 'scalar' else [mpmath.nstr(c, 17) for c in out[3]]}", case)


def _conditioning_explains_dev(op, sa, sb, stored_pair, ms, exp, dev):
    """dev <= 256 x the spread of the exact definition over +-1 ulp perturbations of each stored input"""
    sta, stb = stored_pair
    base = [(sysx, list(st)) for sysx, st in ((sa, sta), (sb, stb)) if st is not None]
    spread = mpf(0)
    for which, (sysx, st) in enumerate(base):
        for i in range(len(st)):
            for sgn in (1, -1):
                st2 = list(st)
                st2[i] = math.nextafter(st[i], math.inf * sgn)
                gs = [G.from_stored(sy, st2 if w2 == which else s0) for w2, (sy, s0) in enumerate(base)]
                if any(g is None for g in gs):
                    return True
                e2 = expected(op, gs[0], gs[1] if len(gs) > 1 else None, ms)
                if e2 is None:
                    return True
                d = max(abs(p - q) for p, q in zip(e2, exp)) if isinstance(exp, tuple) else abs(e2 - exp)
                spread = max(spread, d)
    return dev <= 256 * spread


def run_wide(res: Result, op, dimA, dimB, sigs, tier):
    flavor = "momentum" if op.momentum_only else "generic"
    scal = S.scalar_sets(op, tier)[:1] if tier != "thorough" else S.scalar_sets(op, tier)[:2]
    for a in wide_vectors(dimA):
        bs = [None]
        if dimB is not None:
            if op.name in ("boost_beta3", "boostCM_of_beta3") or (op.name in ("boost", "boostCM_of") and dimB == 3):
                bs = S._beta3_partners(tier)[:1]
            elif "boost" in op.name:
                bs = S._booster_p4(tier)[:1]
            else:
                bs = A.partners(dimB, tier)[:1]
        for b in bs:
            for s in scal:
                for sa, sb in sigs:
                    check_wide(res, op, a, b, s, sa, sb, flavor)


def run_shard(shard, tier):
    res = Result()
    op = BY_KEY[shard["op"]]
    dimA, dimB = shard["dimA"], shard["dimB"]
    only_sa = tuple(shard["sysA"]) if "sysA" in shard else None
    sigs = [sg for sg in S.signatures(op, dimA, dimB) if only_sa is None or sg[0] == only_sa]
    flavors = ["momentum"] if op.momentum_only else ["generic", "momentum"]
    cases = S.operand_cases(op, dimA, dimB, tier, boundary=True)
    scal = S.scalar_sets(op, tier)
    first = True
    for flavor in flavors:
        for a, b in cases:
            for s in scal:
                for sa, sb in sigs:
                    # L2 once per flavor is enough for values; do it for the generic flavor
                    layers = ("L1", "L2") if flavor == flavors[0] else ("L1",)
                    check_case(res, op, a, b, s, sa, sb, flavor, layers)
                if first:
                    first = False
                    res.sample({"op": op.key, "flavor": flavor, "a": list(a.comps), "b": list(b.comps) if b else None, "scalars": {k: v for k, v in s.items() if k != "matrix"}, "signatures_checked": len(sigs), "reference": "M_geo"})
    wsigs = sigs if (dimB is None or tier == "thorough") else [sg for sg in S.signatures(op, dimA, dimB, "diag") if only_sa is None or sg[0] == only_sa]
    run_wide(res, op, dimA, dimB, wsigs, tier)
    return res


def replay(case):
    res = Result()
    op = BY_KEY[case["op"]]
    a = Vec("a", case["a"], set())
    b = Vec("b", case["b"], set()) if case.get("b") is not None else None
    sa = tuple(case["sysA"])
    sb = tuple(case["sysB"]) if case.get("sysB") is not None else None
    if case.get("layer") == "L2w":
        a = Vec(case.get("wide", "a"), case["a"], {"wide"})
        check_wide(res, op, a, b, case["scalars"], sa, sb, case["flavor"])
        return res
    layers = (case["layer"],) if "layer" in case else ("L1", "L2")
    check_case(res, op, a, b, case["scalars"], sa, sb, case["flavor"], layers)
    return res
