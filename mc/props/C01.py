"""C01 — results do not depend on the coordinate system operands are stored in.

Bounded exhaustive exploration, directly on the implementation, at the exact layer L1:
for every catalogued operation x every coordinate-system signature of its operands x
both flavors x the stratified operand / scalar alphabets, the result obtained through
the real dispatch path is compared with the result of the *same call on the same
geometric operands stored in the all-Cartesian signature* (differential oracle).
"""

from __future__ import annotations

import math

import mpmath
from mpmath import mpf

from .. import alphabet as A
from .. import lattice as L
from .. import model as G
from .. import sweep as S
from ..alphabet import Vec
from ..catalogue import BY_KEY, OPS, missing_from_code, uncatalogued
from ..result import Result

ID = "C01"
RULE = (
    "cases = operation x signature (coordinate systems of all operands) x flavor x operand tuple x scalar arguments, "
    "enumerated completely from the catalogue and the stratified alphabets; a case is non-trivial when its signature "
    "is not the all-Cartesian one, all operands and the exact result are representable in the systems involved, and the "
    "compared result is finite (or a boolean); distinct = distinct (operation, signature, flavor, operands, scalars)"
)
ASSUMPTIONS = [
    "arithmetic of the compute layer is carried out by mpmath at 60 digits through a subclass of the object backend (lib = MpLib); agreement demanded to 1e-40 relative",
    "the value space is bounded by the stratified dyadic alphabets (mc/alphabet.py); nothing is claimed for values outside them",
    "rotate_quaternion is driven with unit quaternions only; equal/not_equal are excluded here (their contract is about stored coordinates: C12)",
    "scale2D/scale3D/transform2D/transform3D (and their aliases neg2D/neg3D) are checked for their documented contract instead: transformed part agrees, stored higher coordinates passed through",
]
CAP_S = {"quick": 1500, "thorough": 7200}
EXCLUDE = {"equal", "not_equal"}

_counter = None


def _ensure_counter():
    global _counter
    if _counter is None:
        _counter = L.VariantCounter()
    return _counter


def bounds(tier):
    return {
        "tier": tier,
        "vectors_2D": len(S.A.vectors(2, tier)),
        "vectors_3D": len(S.A.vectors(3, tier)),
        "vectors_4D": len(S.A.vectors(4, tier)),
        "partners_per_first_operand": len(S.A.partners(4, tier)),
        "signatures": "all (2/6/12 unary; 4/36/144 and mixed-dimension products binary; x12 Euler orders)",
        "flavors": "generic and momentum first operand",
        "precision_digits": 60,
        "tolerance_relative": "1e-40",
    }


def shards(tier):
    _ensure_counter()
    out = []
    for op in OPS:
        if op.name in EXCLUDE:
            continue
        for dimA in op.dims:
            for dimB in S.second_dims(op, dimA):
                if dimB is not None and dimA == 4 and dimB == 4:
                    for sa in L.SYSTEMS[4]:
                        out.append({"op": op.key, "dimA": dimA, "dimB": dimB, "sysA": list(sa)})
                else:
                    out.append({"op": op.key, "dimA": dimA, "dimB": dimB})
    return out


def _strata(a: Vec, b):
    keep = ("timelike", "fast", "spacelike", "spacelike_tltz", "negtime", "near_axis", "boundary", "lightlike")
    t = [k for k in keep if a.has(k)]
    s = "+".join(t) or "generic"
    if b is not None:
        tb = [k for k in keep + ("parallel", "antiparallel", "perpendicular", "same", "velocity") if b.has(k)]
        s += "/" + ("+".join(tb) or "generic")
    return s


def _tiny(x, scale, margin):
    return abs(x) < margin * scale


MARGIN_L1 = mpf(10) ** -30
MARGIN_L2 = mpf(10) ** -6


def result_representable(cart, system, scale, margin=MARGIN_L1):
    """Is the exact (reference) result representable in the system it is returned in
    (with a margin, so that a result sitting on the boundary up to rounding is not decided)?"""
    if cart is None:
        return False
    if len(system) > 1 and system[1] in ("theta", "eta"):
        if _tiny(G.hyp(cart[0], cart[1]), scale, margin):
            return False
    if len(system) > 2 and system[2] == "tau":
        if cart[3] < 0 or _tiny(cart[3], scale, margin):
            return False
    return True


def call(op, a, sa, b, sb, flavor, ms):
    """Run one call on MP objects; returns (kind, payload...) or ('raise', exc)."""
    va = S.build_mp(a, sa, flavor)
    if va is None:
        return ("unrepresentable",), None, None
    others = []
    vb = None
    if b is not None:
        vb = S.build_mp(b, sb, "generic")
        if vb is None:
            return ("unrepresentable",), None, None
        others = [vb]
    try:
        r = op.call(va, others, ms)
        return S.read_result(op, r), va, r
    except ZeroDivisionError as e:
        return ("zerodiv", repr(e)), va, None
    except Exception as e:  # noqa: BLE001
        return ("raise", f"{type(e).__name__}: {e}"), va, None


def _decided(res, op, dimA, sa, sb):
    res.add_to("decided", f"{op.key}|{dimA}|{L.sysname(sa)}|{sb and L.sysname(sb)}")


def check_case(res: Result, op, a, b, s, sa, sb, flavor, ref=None):
    """Compare signature (sa, sb) against the all-Cartesian signature for one case."""
    ms = S.mp_scalars(s)
    dimA = a.dim
    ca = L.CART[dimA]
    cb = L.CART[b.dim] if b is not None else None
    case = {
        "op": op.key, "flavor": flavor, "a": list(a.comps), "b": list(b.comps) if b is not None else None,
        "scalars": s, "sysA": list(sa), "sysB": list(sb) if sb is not None else None,
    }
    cls_base = f"{op.key}|{L.sysname(sa)}" + (f"|{L.sysname(sb)}" if sb is not None else "") + f"|{_strata(a, b)}"
    if ref is None:
        ref = call(op, a, ca, b, cb, flavor, ms)
        res.transitions += 1
    out, va, robj = call(op, a, sa, b, sb, flavor, ms)
    if out[0] == "unrepresentable":
        res.count("operand_not_representable")
        return ref
    res.transitions += 1
    res.evaluations += 1
    rout = ref[0]
    scale = S.case_scale(op, a, b, s)
    if rout[0] in ("raise", "zerodiv"):
        if out[0] == rout[0]:
            res.count("both_raise")
            return ref
        _decided(res, op, dimA, sa, sb)  # a verdict was reached for this point
        res.violation(f"{cls_base}|reference-raises", f"all-Cartesian signature raised {rout[1]} but {L.sysname(sa)} returned", case)
        return ref
    if out[0] in ("raise", "zerodiv"):
        res.traces += 1
        _decided(res, op, dimA, sa, sb)  # a verdict was reached for this point
        res.violation(f"{cls_base}|raises", f"{op.key} raised {out[1]} for signature {L.sysname(sa)}/{sb and L.sysname(sb)} while the Cartesian signature returned a value", case)
        return ref
    res.traces += 1
    if out[0] == "bool":
        if out[1] != rout[1]:
            _decided(res, op, dimA, sa, sb)  # a verdict was reached for this point
            res.violation(f"{cls_base}|bool", f"{op.key} = {out[1]} but {rout[1]} in Cartesian storage", case)
        else:
            res.nontrivial += 1
            _decided(res, op, dimA, sa, sb)
        return ref
    if out[0] == "scalar":
        x, y = out[1], rout[1]
        sc = scale ** (op.degree if op.degree else 1) if op.degree != 0 else mpf(1)
        ok = S.close(x, y, sc)
        if not ok and op.name in ("phi", "deltaphi"):
            ok = S.angle_close(x, y)
        if not ok:
            _decided(res, op, dimA, sa, sb)  # a verdict was reached for this point
            res.violation(f"{cls_base}|value", f"{op.key} = {mpmath.nstr(x, 25)} but {mpmath.nstr(y, 25)} in Cartesian storage", case)
        elif mpmath.isnan(x):
            res.count("both_nan")
        else:
            res.nontrivial += 1
            _decided(res, op, dimA, sa, sb)
        return ref
    # vector result
    _, rsys, rst, rcart = out
    _, refsys, refst, refcart = rout
    if op.partial and dimA > op.partial:
        n = op.partial
        head_sys = rsys[: (1 if n == 2 else 2)]
        head = G.from_stored(head_sys, rst[: n])
        if refcart is None or head is None:
            _decided(res, op, dimA, sa, sb)  # a verdict was reached for this point
            res.violation(f"{cls_base}|nonfinite", f"{op.key}: transformed part not finite", case)
            return ref
        if not result_representable(refcart[:n], head_sys, scale):
            res.count("result_not_representable")
            return ref
        if not S.vec_close(head, refcart[:n], scale):
            _decided(res, op, dimA, sa, sb)  # a verdict was reached for this point
            res.violation(f"{cls_base}|value", f"{op.key}: transformed part {[mpmath.nstr(v, 20) for v in head]} != {[mpmath.nstr(v, 20) for v in refcart[:n]]} (Cartesian storage)", case)
            return ref
        # stored higher coordinates passed through unchanged, same coordinate class
        in_sys, in_st = L.system_of(va)
        if rsys[len(head_sys):] != in_sys[len(head_sys):] or any(p != q for p, q in zip(rst[n:], in_st[n:])):
            _decided(res, op, dimA, sa, sb)  # a verdict was reached for this point
            res.violation(f"{cls_base}|passthrough", f"{op.key}: stored higher coordinates changed: {in_sys}{[mpmath.nstr(v, 15) for v in in_st[n:]]} -> {rsys}{[mpmath.nstr(v, 15) for v in rst[n:]]}", case)
            return ref
        res.nontrivial += 1
        _decided(res, op, dimA, sa, sb)
        return ref
    if refcart is None and rcart is None:
        res.count("both_nonfinite")
        return ref
    if refcart is None:
        res.count("reference_nonfinite")
        return ref
    if not result_representable(refcart, rsys, scale):
        res.count("result_not_representable")
        return ref
    if rcart is None:
        _decided(res, op, dimA, sa, sb)  # a verdict was reached for this point
        res.violation(f"{cls_base}|nonfinite", f"{op.key}: result {rsys}{[mpmath.nstr(v, 15) for v in rst]} denotes no finite vector; Cartesian storage gives {[mpmath.nstr(v, 15) for v in refcart]}", case)
        return ref
    sc = scale ** 2 if op.degree == 2 else scale
    if not S.vec_close(rcart, refcart, sc):
        _decided(res, op, dimA, sa, sb)  # a verdict was reached for this point
        res.violation(f"{cls_base}|value", f"{op.key}: {[mpmath.nstr(v, 20) for v in rcart]} (returned as {L.sysname(rsys)}) != {[mpmath.nstr(v, 20) for v in refcart]} (Cartesian storage)", case)
        return ref
    res.nontrivial += 1
    _decided(res, op, dimA, sa, sb)
    return ref


def run_shard(shard, tier):
    cnt = _ensure_counter()
    cnt.hit.clear()
    res = Result()
    op = BY_KEY[shard["op"]]
    dimA, dimB = shard["dimA"], shard["dimB"]
    only_sa = tuple(shard["sysA"]) if "sysA" in shard else None
    sigs = [sg for sg in S.signatures(op, dimA, dimB) if only_sa is None or sg[0] == only_sa]
    cart_sig = (L.CART[dimA], L.CART[dimB] if dimB is not None else None)
    flavors = ["momentum"] if op.momentum_only else ["generic", "momentum"]
    cases = S.operand_cases(op, dimA, dimB, tier, boundary=True)
    scal = S.scalar_sets(op, tier)
    if op.name in ("is_timelike", "is_spacelike", "is_lightlike"):
        # non-default tolerances between tau and tau^2 of the alphabet's slow (|tau| ~ 0.1-0.3) and ordinary (|tau| ~ 1.3-4) vectors
        scal = scal + [t for t in ({"tolerance": 0.0625}, {"tolerance": 3.0}, {"tolerance": -3.0}) if t not in scal]
    nsamp = 0
    combos = [(a, b, s) for a, b in cases for s in scal]
    if op.name == "isclose" and dimA == 4:
        # pairs that differ in the time component only (t2 = 1.125 t1), with tolerance pairs for which the verdict is clear of its
        # boundary by > 10 % and depends on which of the two tolerances is the relative one: the spatial parts are the same
        # geometric vector in every storage, so the verdict must not depend on the storage pairing either
        for a, _ in cases:
            if _ is None or _.name != "same" or not a.has("timelike") and not a.has("forward_timelike"):
                continue
            t1 = a.comps[3]
            if t1 <= 0 or any(c == 0 for c in a.comps) or a.has("near_axis") or a.has("wildphi"):
                continue  # a zero component turns into a rounding residue under conversion: never close with atol = 0
            near = A.Vec("t*1.125", a.comps[:3] + (t1 * 1.125,), {"near_t"})
            for s_ in ({"rtol": 0.25, "atol": 0.0}, {"rtol": 0.0, "atol": 0.25}, {"rtol": 0.0625, "atol": 0.0}, {"rtol": 0.0, "atol": 0.0625}):
                # the library compares same-temporal pairs in their stored temporal coordinate and mixed pairs after a conversion:
                # keep the pair only if the verdict is the same, clear of its boundary, whether time is compared as t or as tau
                p2 = sum(c * c for c in a.comps[:3])
                t2 = t1 * 1.125
                if t1 * t1 <= p2:
                    continue
                tau1, tau2 = math.sqrt(t1 * t1 - p2), math.sqrt(t2 * t2 - p2)
                verdicts = []
                for d_, other in ((t2 - t1, t2), (tau2 - tau1, tau2)):
                    budget = s_["atol"] + s_["rtol"] * abs(other)
                    verdicts.append(None if abs(d_ - budget) <= 0.1 * max(budget, d_) else d_ <= budget)
                if verdicts[0] is not None and verdicts[0] == verdicts[1]:
                    combos.append((a, near, s_))
    for flavor in flavors:
        for a, b, s in combos:
            if True:
                ms = S.mp_scalars(s)
                ref = call(op, a, cart_sig[0], b, cart_sig[1], flavor, ms)
                res.transitions += 1
                for sa, sb in sigs:
                    if (sa, sb) == cart_sig:
                        continue
                    res.states += 1
                    check_case(res, op, a, b, s, sa, sb, flavor, ref=ref)
                    key = f"{op.key}|{dimA}|{L.sysname(sa)}|{sb and L.sysname(sb)}"
                    res.add_to("enumerated", key)
                if nsamp < 1:
                    nsamp += 1
                    res.sample({"op": op.key, "flavor": flavor, "a": list(a.comps), "b": list(b.comps) if b else None, "scalars": {k: v for k, v in s.items() if k != "matrix"}, "signatures_compared": len(sigs)})
    for tag in cnt.hit:
        res.add_to("variants_hit", tag)
    return res


def finalize(total: Result, tier, complete):
    cnt = _ensure_counter()
    hit = total.sets.get("variants_hit", set())
    total.counters["table_entries_total"] = cnt.total
    total.counters["table_entries_reached"] = len(hit)
    if complete:
        missing = sorted(f"{m}:{s}" for (m, s) in cnt.all_tags() - hit)
        # equal / not_equal are excluded here by design (C12)
        missing = [m for m in missing if ".equal:" not in m and ".not_equal:" not in m]
        total.counters["table_entries_not_reached"] = len(missing)
        if missing:
            total.samples.append({"table_entries_not_reached": missing[:40]})
        # decided-ness of every enumerated (operation, signature): a value-valued result was
        # compared at least once.  Booleans and scalars count through `nontrivial` per shard.
    unc = uncatalogued()
    total.counters["uncatalogued_public_names"] = len(unc)
    if unc:
        total.samples.append({"uncatalogued": unc})
    mis = missing_from_code()
    if mis:
        raise RuntimeError(f"catalogued names missing from the code: {mis}")
    total.sets.pop("variants_hit", None)
    en = total.sets.pop("enumerated", set())
    de = total.sets.pop("decided", set())
    total.counters["op_signature_points"] = len(en)
    # neg4D of a tau-stored vector always has negative time: its exact result is never representable in tau storage, so
    # the proviso of the property excludes every case of these six points
    inherent = {k for k in en if k.startswith("neg4D|") and "_tau|" in k}
    undecided = sorted(en - de - inherent)
    total.counters["op_signature_points_never_decided"] = len(undecided)
    if undecided and complete:
        # vacuity guard: a change must not be able to hide by pushing every case of a signature outside the decidable domain
        raise RuntimeError(f"vacuous: (operation, signature) points enumerated but never decided: {undecided[:12]}")


def replay(case):
    res = Result()
    op = BY_KEY[case["op"]]
    a = Vec("a", case["a"], set())
    b = Vec("b", case["b"], set()) if case.get("b") is not None else None
    sa = tuple(case["sysA"])
    sb = tuple(case["sysB"]) if case.get("sysB") is not None else None
    check_case(res, op, a, b, case["scalars"], sa, sb, case["flavor"])
    return res
