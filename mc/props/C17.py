"""C17 — reductions of vector arrays are component-wise Cartesian reductions.

Exhaustive over array shape / list layout x axis x keepdims x 20 coordinate systems x 2
flavors x reducer (numpy.sum, .sum(), numpy.count_nonzero; ak.sum, ak.count,
ak.count_nonzero), with zero vectors (stored with non-zero phi / theta / eta) mixed in.
The reference is the same NumPy / Awkward reducer applied to plain numeric arrays of the
per-element Cartesian components computed through the object backend.
"""

from __future__ import annotations

import itertools
import math

import numpy as np

from .. import alphabet as A
from .. import build as B
from .. import lattice as L
from .. import sweep as S
from ..result import Result

import awkward as ak  # noqa: E402
import vector  # noqa: E402

ID = "C17"
RULE = (
    "cases = backend x reducer x array shape / list layout x axis x keepdims x coordinate system x flavor; the result's Cartesian components, shape / list "
    "structure and flavor are compared with the plain reducer applied to the elements' Cartesian components (computed per element by the object backend); "
    "non-trivial = an array with at least two elements along the reduced axis or with empty / missing lists; distinct = distinct cases"
)
ASSUMPTIONS = [
    "component sums compared at 1e-11 relative to the summed magnitudes; counts compared exactly",
    "zero vectors are stored with non-zero angles (rho = 0, phi = 1.5; theta = 0.7 / eta = 1.0; tau = 0) so that field-wise reductions of the stored coordinates would be wrong",
    "axis / keepdims combinations that the plain NumPy / Awkward reducer itself rejects for that shape are outside the lattice",
]
CAP_S = {"quick": 1200, "thorough": 5400}
NP_SHAPES = [(0,), (1,), (3,), (2, 3), (3, 0), (2, 2, 2)]
AK_LAYOUTS = ("jagged", "allempty", "optlist", "nested3", "regular")
CARTN = {2: ("x", "y"), 3: ("x", "y", "z"), 4: ("x", "y", "z", "t")}


def bounds(tier):
    return {"tier": tier, "numpy_shapes": NP_SHAPES, "awkward_layouts": AK_LAYOUTS, "axes": "None and every valid axis incl. negative (NumPy); None, 0, 1, -1 (Awkward)",
            "keepdims": [False, True], "systems": 20, "flavors": 2}


def shards(tier):
    out = []
    for dim in (2, 3, 4):
        for s in L.SYSTEMS[dim]:
            out.append({"dim": dim, "sys": list(s), "backend": "NP"})
            out.append({"dim": dim, "sys": list(s), "backend": "AKA"})
    return out


def element_rows(dim, system, n, offset=0):
    """n stored rows in `system`, a window of a cyclic pool in which generic vectors alternate with the zero vector
    (stored with non-zero angles), vectors with a single non-zero Cartesian component and non-zero light-like vectors"""
    vs = [v for v in A.vectors(dim, "thorough") if not (v.has("near_axis") or v.has("fast") or v.has("negtime") or v.has("spacelike_tltz"))]
    gen = []
    for v in vs:
        st = S.stored(v, system)
        if st is not None:
            gen.append(tuple(float(x) for x in st))
        if len(gen) >= 6:
            break
    special = [zero_row(system)] + single_component_rows(system)
    pool = []
    for i in range(max(len(gen), len(special))):
        pool.append(gen[i % len(gen)])
        pool.append(special[i % len(special)])
    return [pool[(offset + i) % len(pool)] for i in range(n)]


def zero_row(system):
    r = [0.0, 0.0] if system[0] == "xy" else [0.0, 1.5]
    if len(system) > 1:
        r.append({"z": 0.0, "theta": 0.7, "eta": 1.0}[system[1]])
    if len(system) > 2:
        r.append(0.0)
    return tuple(r)


def single_component_rows(system):
    """vectors that are non-zero through one Cartesian component only (z, or t), where the system can store them"""
    out = []
    az = [0.0, 0.0] if system[0] == "xy" else [0.0, 1.5]
    if len(system) > 1 and system[1] == "z":
        r = az + [2.0]
        if len(system) > 2:
            r.append(0.0 if system[2] == "t" else -2.0)  # tau = -2 with mag = 2 gives t = 0
        out.append(tuple(r))
    if len(system) > 2:
        r = az + [{"z": 0.0, "theta": 0.7, "eta": 1.0}[system[1]]] + [3.0]
        out.append(tuple(r))
        # non-zero *light-like* vectors (t^2 == mag^2): tau = 0 exactly in tau systems, a Pythagorean quadruple otherwise
        if system[2] == "tau":
            lon = {"z": 1.5, "theta": 0.7, "eta": 1.0}[system[1]]
            out.append(tuple(([0.375, 0.5] if system[0] == "xy" else [0.625, 0.9375]) + [lon, 0.0]))
        else:
            st = S.stored(A.Vec("light", (0.375, 0.5, 1.5, 1.625), set()), system)
            out.append(tuple(float(x) for x in st))
    return out


def cart_of(system, flavor, row):
    o = B.make_obj(system, flavor, row)
    dim = len(row)
    return tuple(float(getattr(o, n)) for n in CARTN[dim])


def close(a, b, scale):
    if isinstance(a, list) or isinstance(b, list):
        return isinstance(a, list) and isinstance(b, list) and len(a) == len(b) and all(close(x, y, scale) for x, y in zip(a, b))
    if a is None or b is None:
        return a is None and b is None
    return abs(a - b) <= 1e-11 * max(1.0, scale, abs(a), abs(b))


def run_numpy(res: Result, dim, system):
    names = CARTN[dim]
    for si, shape in enumerate(NP_SHAPES):
        n = int(np.prod(shape))
        rows = element_rows(dim, system, max(n, 1), offset=3 * si)[:n]
        for flavor, dtname in [(f, "float64") for f in ("generic", "momentum")] + ([("generic", "int64"), ("momentum", "int32"), ("generic", "float32")] if shape in ((3,), (2, 3)) else []):
            if dtname != "float64":
                # coordinate fields typed int64 / int32 / float32, holding small integers (a legal array: vector.array of integer columns)
                from .C03 import _int_rows

                base = _int_rows(system, "a")
                rows = [tuple(int(x) + (k // len(base)) * (1 if j != 1 or system[0] == "xy" else 0) for j, x in enumerate(base[k % len(base)])) for k in range(n)]
                if len(system) > 1 and system[1] == "theta":
                    rows = [tuple(min(max(x, 1), 3) if j == 2 else x for j, x in enumerate(r)) for r in rows]
                fn_ = L.field_names(system, flavor)
                arr = vector.array({name: np.array([r[j] for r in rows], dtype={"int64": np.int64, "int32": np.int32, "float32": np.float32}[dtname]) for j, name in enumerate(fn_)})
            else:
                arr = B.make_np(system, flavor, rows if n else element_rows(dim, system, 1), shape=None)
            if n == 0:
                arr = arr[:0]
            arr = arr.reshape(shape)
            tol_rel = 1e-11 if dtname != "float32" else 1e-5
            carts = np.array([cart_of(system, flavor, r) for r in rows], dtype=np.float64).reshape(shape + (dim,)) if n else np.zeros(shape + (dim,))
            nonzero = np.any(carts != 0, axis=-1)
            scale = float(np.sum(np.abs(carts))) if n else 1.0
            axes = [None] + list(range(len(shape))) + [-1]
            if len(shape) >= 2:  # tuple axes, with and without negative members
                axes += [(0, 1), (0, -1), (-2, -1), (1,), (-1,)] + ([(0, 2), (-1, 0), (0, 1, 2)] if len(shape) == 3 else [])
            for axis in axes:
                for keepdims in (False, True):
                    for red in ("numpy.sum", ".sum()", "numpy.count_nonzero"):
                        res.states += 1
                        res.evaluations += 1
                        res.transitions += 1
                        case = {"backend": "NP", "sys": list(system), "flavor": flavor, "shape": list(shape), "axis": axis, "keepdims": keepdims, "reducer": red, "dtype": dtname}
                        cls = f"{red}|NP|{L.sysname(system)}|shape{shape}|axis={axis}|keepdims={keepdims}" + ("" if dtname == "float64" else f"|{dtname}")
                        try:
                            if red == "numpy.sum":
                                r = np.sum(arr, axis=axis, keepdims=keepdims)
                            elif red == ".sum()":
                                r = arr.sum(axis=axis, keepdims=keepdims)
                            else:
                                r = np.count_nonzero(arr, axis=axis, keepdims=keepdims)
                        except Exception as e:  # noqa: BLE001
                            res.violation(f"raises|{cls}", f"{red} raised {type(e).__name__}: {str(e)[:150]}", case)
                            continue
                        res.traces += 1
                        if red == "numpy.count_nonzero":
                            want = np.count_nonzero(nonzero, axis=axis, keepdims=keepdims)
                            if np.shape(r) != np.shape(want) or not np.array_equal(np.asarray(r), np.asarray(want)):
                                res.violation(f"count|{cls}", f"count_nonzero = {np.asarray(r).tolist()}, number of non-zero vectors = {np.asarray(want).tolist()}", case)
                                continue
                        else:
                            norm_axis = tuple(range(len(shape))) if axis is None else tuple(a_ % len(shape) for a_ in axis) if isinstance(axis, tuple) else (axis % len(shape) if len(shape) else axis)
                            want = np.sum(carts, axis=norm_axis, keepdims=keepdims)
                            if not isinstance(r, vector.backends.numpy.VectorNumpy) and not isinstance(r, vector.backends.object.VectorObject):
                                res.violation(f"type|{cls}", f"{red} returned {type(r).__name__}", case)
                                continue
                            if isinstance(r, vector.Momentum) != (flavor == "momentum"):
                                res.violation(f"flavor|{cls}", f"{red} of a {flavor} array returned {type(r).__name__}", case)
                                continue
                            got = np.stack([np.asarray(getattr(r, nme), dtype=np.float64) for nme in names], axis=-1)
                            if got.shape != np.shape(want):
                                res.violation(f"shape|{cls}", f"{red} result has shape {got.shape[:-1]}, numpy gives {np.shape(want)[:-1]} for a plain array", case)
                                continue
                            if not np.all(np.abs(got - want) <= tol_rel * max(1.0, scale)):
                                res.violation(f"value|{cls}", f"{red} = {got.tolist()}, the sum of Cartesian components is {np.asarray(want).tolist()}", case)
                                continue
                        if n >= 2 or 0 in shape:
                            res.nontrivial += 1
    # reduce, update a stored field in place, reduce again (the same array object): the second reduction is of the updated elements
    for flavor in ("generic", "momentum"):
        for shape in ((4,), (2, 3)):
            n = int(np.prod(shape))
            rows0 = element_rows(dim, system, n, offset=5)[:n]
            fnames = L.field_names(system, flavor)
            for fi in range(len(fnames)):
                arr = B.make_np(system, flavor, rows0).reshape(shape)
                stored_name = arr.dtype.names[fi]
                try:
                    np.sum(arr), arr.sum(axis=0), np.count_nonzero(arr)
                    delta = 0.375 if L.field_names(system)[fi] != "theta" else 0.125
                    arr[stored_name] = arr[stored_name] + delta
                    arr[stored_name].reshape(-1)[0] += delta  # element-wise write through the field view
                except Exception:  # noqa: BLE001
                    res.count("field_assignment_not_supported")
                    continue
                rows1 = [tuple(x + ((2 * delta if k == 0 else delta) if j == fi else 0.0) for j, x in enumerate(r)) for k, r in enumerate(rows0)]
                carts = np.array([cart_of(system, flavor, r) for r in rows1], dtype=np.float64).reshape(shape + (dim,))
                scale = float(np.sum(np.abs(carts)))
                for red, f in (("numpy.sum", lambda a: np.sum(a)), (".sum(axis=0)", lambda a: a.sum(axis=0)), ("numpy.sum(axis=-1,keepdims)", lambda a: np.sum(a, axis=-1, keepdims=True))):
                    res.states += 1
                    res.evaluations += 1
                    res.transitions += 1
                    res.traces += 1
                    case = {"backend": "NP", "sys": list(system), "flavor": flavor, "shape": list(shape), "reducer": red, "after_assignment_of": fnames[fi]}
                    cls = f"after_field_assignment|{red}|NP|{L.sysname(system)}|shape{shape}"
                    try:
                        r = f(arr)
                        got = np.stack([np.asarray(getattr(r, nme), dtype=np.float64) for nme in names], axis=-1)
                    except Exception as e:  # noqa: BLE001
                        res.violation(f"raises|{cls}", f"{red} after arr[{stored_name!r}] = ... raised {type(e).__name__}: {str(e)[:150]}", case)
                        continue
                    want = np.sum(carts, axis=tuple(range(len(shape)))) if red == "numpy.sum" else np.sum(carts, axis=0) if red == ".sum(axis=0)" else np.sum(carts, axis=len(shape) - 1, keepdims=True)
                    if got.shape != want.shape or not np.all(np.abs(got - want) <= 1e-11 * max(1.0, scale)):
                        res.violation(f"value|{cls}", f"{red} after arr[{stored_name!r}] was updated in place = {got.tolist()}, the sum of the updated elements' Cartesian components is {want.tolist()}", case)
                    else:
                        res.nontrivial += 1
    res.sample({"backend": "NP", "sys": list(system), "shapes": [list(s) for s in NP_SHAPES], "reducers": ["numpy.sum", ".sum()", "numpy.count_nonzero"]})


def ak_layout(recs, layout):
    n = len(recs)
    if layout == "jagged":
        return [recs[0:2], [], recs[2:5], recs[5:6], []]
    if layout == "allempty":
        return [[], [], []]
    if layout == "optlist":
        return [recs[0:2], None, recs[2:5], []]
    if layout == "nested3":
        return [[recs[0:2], []], [], [recs[2:3], recs[3:6]]]
    if layout == "regular":
        return [recs[0:3], recs[3:6]]
    raise KeyError(layout)


def run_awkward(res: Result, dim, system):
    names = CARTN[dim]
    fnames_g = L.field_names(system)
    for flavor in ("generic", "momentum"):
        fn = L.field_names(system, flavor)
        for li, layout in enumerate(AK_LAYOUTS):
            rows = element_rows(dim, system, 6, offset=3 * li + 1)
            carts = [cart_of(system, flavor, r) for r in rows]
            scale = sum(abs(c) for ct in carts for c in ct)
            recs = [dict(zip(fn, r)) for r in rows]
            plain = {nme: [c[i] for c in carts] for i, nme in enumerate(names)}
            nested = ak_layout(recs, layout)
            if layout == "allempty":
                arr = vector.Array(ak.Array(ak_layout(recs, "jagged"))[[1, 4, 1]])
            else:
                a0 = ak.Array(nested)
                if layout == "regular":
                    a0 = ak.to_regular(a0, axis=1)
                arr = vector.Array(a0)
            comp = {}
            for i, nme in enumerate(names):
                vals = [c[i] for c in carts]
                if layout == "allempty":
                    comp[nme] = ak.Array(ak_layout(vals, "jagged"))[[1, 4, 1]]
                else:
                    c0 = ak.Array(ak_layout(vals, layout))
                    comp[nme] = ak.to_regular(c0, axis=1) if layout == "regular" else c0
            nz_vals = [any(c != 0 for c in ct) for ct in carts]
            nz = ak.Array(ak_layout(nz_vals, "jagged"))[[1, 4, 1]] if layout == "allempty" else ak.Array(ak_layout(nz_vals, layout))
            depth = arr.layout.purelist_depth
            for axis in (None, 0, 1, -1) + ((2,) if depth >= 3 else ()):
                for keepdims in (False, True):
                    for red in ("ak.sum", "ak.count", "ak.count_nonzero"):
                        res.states += 1
                        res.evaluations += 1
                        res.transitions += 1
                        case = {"backend": "AKA", "sys": list(system), "flavor": flavor, "layout": layout, "axis": axis, "keepdims": keepdims, "reducer": red}
                        cls = f"{red}|AKA|{L.sysname(system)}|{layout}|axis={axis}|keepdims={keepdims}"
                        f = {"ak.sum": ak.sum, "ak.count": ak.count, "ak.count_nonzero": ak.count_nonzero}[red]
                        # reference: the plain reducer
                        try:
                            if red == "ak.sum":
                                want = {nme: ak.to_list(f(comp[nme], axis=axis, keepdims=keepdims)) for nme in names}
                            elif red == "ak.count":
                                want = ak.to_list(f(comp[names[0]], axis=axis, keepdims=keepdims))
                            else:
                                want = ak.to_list(f(nz, axis=axis, keepdims=keepdims))
                        except Exception:  # noqa: BLE001
                            res.count("plain_reducer_rejects_arguments")
                            continue
                        try:
                            r = f(arr, axis=axis, keepdims=keepdims)
                        except Exception as e:  # noqa: BLE001
                            res.traces += 1
                            res.violation(f"raises|{cls}", f"{red}(axis={axis}, keepdims={keepdims}) raised {type(e).__name__}: {str(e).strip()[:150]} (the plain reducer accepts these arguments)", case)
                            continue
                        res.traces += 1
                        if red == "ak.sum":
                            if not isinstance(r, (ak.Array, ak.Record)) or not isinstance(r, vector.backends.awkward.VectorAwkward):
                                res.violation(f"type|{cls}", f"ak.sum returned {type(r).__name__}, not a vector", case)
                                continue
                            if isinstance(r, vector.Momentum) != (flavor == "momentum"):
                                res.violation(f"flavor|{cls}", f"ak.sum of a {flavor} array returned {type(r).__name__}", case)
                                continue
                            bad = None
                            for nme in names:
                                got = ak.to_list(getattr(r, nme))
                                if not close(got, want[nme], scale):
                                    bad = f"{nme} = {got}, plain ak.sum of the Cartesian components gives {want[nme]}"
                                    break
                            if bad:
                                res.violation(f"value|{cls}", f"ak.sum: {bad}", case)
                                continue
                        else:
                            got = ak.to_list(r)
                            if got != want:
                                res.violation(f"count|{cls}", f"{red} = {got}, expected {want}", case)
                                continue
                        res.nontrivial += 1
    res.sample({"backend": "AKA", "sys": list(system), "layouts": list(AK_LAYOUTS), "reducers": ["ak.sum", "ak.count", "ak.count_nonzero"], "rows_of_last_layout": [list(r) for r in rows]})


def run_shard(shard, tier):
    res = Result()
    if shard["backend"] == "NP":
        run_numpy(res, shard["dim"], tuple(shard["sys"]))
    else:
        run_awkward(res, shard["dim"], tuple(shard["sys"]))
    return res


def replay(case):
    res = Result()
    system = tuple(case["sys"])
    if case["backend"] == "NP":
        run_numpy(res, len(system) + 1, system)
    else:
        run_awkward(res, len(system) + 1, system)
    return res
