"""C11 — vector-space, dot, cross and unit-vector laws.

Algebraic laws through public methods on 60-digit object vectors for every coordinate-
system pairing (pairs: all 4/36/144; triples: diagonal+cross, all in thorough), both
flavors and factors of both signs; then the operator / NumPy-ufunc forms (+ - * / @ unary
-, +, abs, **, numpy.sqrt/cbrt/power/square/absolute) on object, NumPy and Awkward
vectors in float64.
"""

from __future__ import annotations

import mpmath
import numpy as np
from mpmath import mpf

from .. import alphabet as A
from .. import build as B
from .. import lattice as L
from .. import laws as W
from .. import model as G
from .. import sweep as S
from ..alphabet import Vec
from ..result import Result

import awkward as ak  # noqa: E402

ID = "C11"
RULE = (
    "cases = law x coordinate systems of the operands x flavor x operand pair/triple x factor(s) x layer/backend; non-trivial = operands and exact results "
    "representable and both sides computed through the implementation and compared; distinct = distinct (law, systems, operands, factors, backend)"
)
ASSUMPTIONS = [
    "laws checked to 1e-40 at 60 digits on all strata; operator / ufunc forms compared with the method forms in float64 (1e-11 relative) on object, NumPy and Awkward vectors",
    "numpy.cbrt of a vector is implemented as norm2 ** 0.16666666666666666 (a float literal for 1/6): compared at 1e-14 at 60 digits",
    "a law instance is skipped (and counted) when an exact result is not representable in the system it is returned in (negative time for tau, on the axis for theta/eta)",
    "@ (matmul) on Awkward arrays and scalar-valued operators on Awkward records are outside this check's backend list (recorded under C05/C12 known findings)",
]
CAP_S = {"quick": 1200, "thorough": 5400}
FACT = [2.0, -0.5]
FACT_T = [2.0, -0.5, -1.0, 0.34375, -3.25]


def bounds(tier):
    return {"tier": tier, "pair_signatures": "all 4/36/144", "triple_signatures": "all" if tier == "thorough" else "diagonal + cross", "factors": FACT_T if tier == "thorough" else FACT,
            "flavors": "generic and momentum", "layers": ["L1 laws", "float64 operator/ufunc forms on OBJ, NP, AKA"]}


def shards(tier):
    out = []
    for dim in (2, 3, 4):
        for s in L.SYSTEMS[dim]:
            out.append({"kind": "laws", "dim": dim, "sysA": list(s)})
    for dim in (2, 3, 4):
        for s in L.SYSTEMS[dim]:
            out.append({"kind": "forms", "dim": dim, "sysA": list(s)})
    return out


def _stratum(v):
    for k in ("negtime", "spacelike_tltz", "spacelike", "fast", "timelike", "near_axis"):
        if v.has(k):
            return k
    return "generic"


def _vectors(dim, tier):
    vs = A.vectors(dim, tier)
    if tier == "thorough":
        return vs
    return A.representatives(vs, (len(vs) + 2) // 3)


def _norm_name(dim):
    return {2: "rho", 3: "mag", 4: "tau"}[dim]


def _norm2_name(dim):
    return {2: "rho2", 3: "mag2", 4: "tau2"}[dim]


def run_laws(res: Result, a: Vec, sa, tier, only=None, only_sb=None):
    layer = "L1"
    dim = a.dim
    ga = a.mp()
    partners = A.partners(dim, tier)
    facts = FACT_T if tier == "thorough" else FACT
    sbs = L.SYSTEMS[dim]
    trip_mode = "all" if tier == "thorough" else "diag"
    trip_sb = [sb for (x, sb) in L.sig_pairs(dim, dim, trip_mode) if x == tuple(sa)] or [tuple(sa), L.CART[dim]]

    def law(name, ctx, fn, case):
        if only is not None and only != name:
            return
        res.states += 1
        cls = f"{name}|{L.sysname(sa)}|{ctx}|{_stratum(a)}"
        try:
            res.transitions += 1
            msg = fn()
        except W.Skip:
            res.count("skipped_not_representable")
            return
        except Exception as e:  # noqa: BLE001
            res.violation(cls + "|raises", f"{name}: {type(e).__name__}: {e}", dict(case, law=name, a=list(a.comps), sysA=list(sa)))
            return
        res.traces += 1
        res.evaluations += 1
        if msg is None:
            res.nontrivial += 1
        else:
            res.violation(cls, f"{name}: {msg}", dict(case, law=name, a=list(a.comps), sysA=list(sa)))

    def need(c, obj, scale):
        W.need_repr(c, L.system_of(obj)[0], scale, layer)

    for fl_i, flavor in enumerate(("generic", "momentum")):
        # ------------------------------------------------------------ unary laws
        scale = W.scale_of(a)
        case0 = {"flavor": flavor}

        def f_selfdot():
            V = W.mk(layer, a, sa, flavor)
            n2 = getattr(V, _norm2_name(dim))
            if not W.close(V.dot(V), n2, scale, layer):
                return f"v.dot(v) = {mpmath.nstr(W.sc(V.dot(V)), 20)} but {_norm2_name(dim)} = {mpmath.nstr(W.sc(n2), 20)}"
            exact = G.dot(ga, ga)
            if not W.close(n2, exact, scale, layer):
                return f"{_norm2_name(dim)} = {mpmath.nstr(W.sc(n2), 20)} but the metric gives {mpmath.nstr(exact, 20)}"
            return None

        law("dot_self_is_norm2", "unary", f_selfdot, case0)

        def f_unit():
            V = W.mk(layer, a, sa, flavor)
            nrm = abs(G.tau_of(ga)) if dim == 4 else mpmath.sqrt(G.dot(ga, ga))
            if nrm == 0:
                raise W.Skip
            exact = tuple(c / nrm for c in ga)
            u = V.unit()
            need(exact, u, mpf(4) * max(1, 1 / nrm) ** 2)
            cu = W.cart(u)
            usc = max(mpf(1), max(abs(c) for c in exact)) ** 2 * 4
            if not W.vclose(cu, exact, usc, layer):
                return f"unit() = {W.fmt(cu)} but v/|v| = {W.fmt(exact)}"
            nn = getattr(u, _norm_name(dim))
            want = mpf(1) if dim < 4 else (mpf(1) if G.tau2(ga) > 0 else mpf(-1))
            if not W.close(nn, want, usc, layer):
                return f"norm of unit() = {mpmath.nstr(W.sc(nn), 20)}, expected {want}"
            if type(u) is not type(V):
                return f"unit() returned {type(u).__name__} for {type(V).__name__}"
            return None

        if not (dim == 4 and abs(G.tau2(ga)) < mpf(10) ** -20):
            law("unit_has_norm_one_and_is_parallel", "unary", f_unit, case0)

        def f_neg():
            V = W.mk(layer, a, sa, flavor)
            exact = tuple(-c for c in ga)
            r1, r2 = -V, V.scale(W.num(layer, -1))
            need(exact, r1, scale)
            if not W.vclose(W.cart(r1), exact, scale, layer) or not W.vclose(W.cart(r2), exact, scale, layer):
                return f"-v = {W.fmt(W.cart(r1))}, scale(-1) = {W.fmt(W.cart(r2))}, expected {W.fmt(exact)}"
            return None

        law("negation_is_scale_minus_one", "unary", f_neg, case0)

        for k in facts:
            for l in facts[:2]:

                def f_scale(k=k, l=l):
                    V = W.mk(layer, a, sa, flavor)
                    kk, ll = W.num(layer, k), W.num(layer, l)
                    exact = tuple(c * mpf(k) * mpf(l) for c in ga)
                    s = scale * abs(k * l) * max(1, abs(k))
                    inner = V.scale(ll)
                    need(tuple(c * mpf(l) for c in ga), inner, s)
                    one = inner.scale(kk)
                    two = V.scale(kk * ll)
                    need(exact, one, s)
                    if not W.vclose(W.cart(one), W.cart(two), s, layer) or not W.vclose(W.cart(one), exact, s, layer):
                        return f"k(l v) = {W.fmt(W.cart(one))}, (kl) v = {W.fmt(W.cart(two))}, expected {W.fmt(exact)}"
                    return None

                law("scaling_composes", "unary", f_scale, dict(case0, k=k, l=l))

        # ------------------------------------------------------------ binary laws: all system pairings
        for b in partners:
            gb = b.mp()
            scale = W.scale_of(a, b)
            for sb in sbs:
                if only_sb is not None and tuple(only_sb) != sb:
                    continue
                flb = "momentum" if fl_i == 0 and sb[0] == "rhophi" else "generic"
                case = {"flavor": flavor, "b": list(b.comps), "sysB": list(sb)}
                ctx = L.sysname(sb)

                def f_add(sb=sb, b=b, gb=gb, flb=flb, scale=scale):
                    X, Y = W.mk(layer, a, sa, flavor), W.mk(layer, b, sb, flb)
                    exact = tuple(p + q for p, q in zip(ga, gb))
                    xy, yx = X.add(Y), Y.add(X)
                    need(exact, xy, scale)
                    need(exact, yx, scale)
                    if not W.vclose(W.cart(xy), exact, scale, layer) or not W.vclose(W.cart(yx), exact, scale, layer):
                        return f"a+b = {W.fmt(W.cart(xy))}, b+a = {W.fmt(W.cart(yx))}, expected {W.fmt(exact)}"
                    back = xy.subtract(Y)
                    need(ga, back, scale)
                    if not W.vclose(W.cart(back), ga, scale, layer):
                        return f"(a+b)-b = {W.fmt(W.cart(back))} but a = {W.fmt(ga)}"
                    d = X.subtract(Y)
                    exd = tuple(p - q for p, q in zip(ga, gb))
                    need(exd, d, scale)
                    if not W.vclose(W.cart(d), exd, scale, layer):
                        return f"a-b = {W.fmt(W.cart(d))}, expected {W.fmt(exd)}"
                    return None

                law("addition_commutes_and_subtraction_inverts", ctx, f_add, case)

                def f_dot(sb=sb, b=b, gb=gb, flb=flb, scale=scale):
                    X, Y = W.mk(layer, a, sa, flavor), W.mk(layer, b, sb, flb)
                    exact = G.dot(ga, gb)
                    d1, d2 = X.dot(Y), Y.dot(X)
                    if not W.close(d1, exact, scale, layer) or not W.close(d2, exact, scale, layer):
                        return f"a.b = {mpmath.nstr(W.sc(d1), 20)}, b.a = {mpmath.nstr(W.sc(d2), 20)}, metric gives {mpmath.nstr(exact, 20)}"
                    return None

                law("dot_symmetric_with_metric", ctx, f_dot, case)

                for k in facts:

                    def f_dist(sb=sb, b=b, gb=gb, flb=flb, scale=scale, k=k):
                        X, Y = W.mk(layer, a, sa, flavor), W.mk(layer, b, sb, flb)
                        kk = W.num(layer, k)
                        s = scale * max(1, abs(k)) ** 2
                        exact = tuple(mpf(k) * (p + q) for p, q in zip(ga, gb))
                        sm = X.add(Y)
                        need(tuple(p + q for p, q in zip(ga, gb)), sm, s)
                        lhs = sm.scale(kk)
                        kx, ky = X.scale(kk), Y.scale(kk)
                        need(tuple(mpf(k) * p for p in ga), kx, s)
                        need(tuple(mpf(k) * p for p in gb), ky, s)
                        rhs = kx.add(ky)
                        need(exact, lhs, s)
                        need(exact, rhs, s)
                        if not W.vclose(W.cart(lhs), W.cart(rhs), s, layer) or not W.vclose(W.cart(lhs), exact, s, layer):
                            return f"k(a+b) = {W.fmt(W.cart(lhs))}, ka+kb = {W.fmt(W.cart(rhs))}, expected {W.fmt(exact)}"
                        # (k a) . b = k (a . b)
                        d1, d2 = kx.dot(Y), X.dot(Y)
                        if not W.close(d1, mpf(k) * W.sc(d2), s, layer):
                            return f"(ka).b = {mpmath.nstr(W.sc(d1), 20)} but k(a.b) = {mpmath.nstr(mpf(k) * W.sc(d2), 20)}"
                        return None

                    law("scaling_distributes_and_dot_is_homogeneous", ctx, f_dist, dict(case, k=k))

                if dim == 3:

                    def f_cross(sb=sb, b=b, gb=gb, flb=flb, scale=scale):
                        X, Y = W.mk(layer, a, sa, flavor), W.mk(layer, b, sb, flb)
                        exact = G.cross(ga, gb)
                        s2 = scale * scale
                        c1, c2 = X.cross(Y), Y.cross(X)
                        need(exact, c1, scale)
                        if not W.vclose(W.cart(c1), exact, s2, layer):
                            return f"a x b = {W.fmt(W.cart(c1))}, expected {W.fmt(exact)}"
                        if not W.vclose(W.cart(c2), tuple(-c for c in exact), s2, layer):
                            return f"b x a = {W.fmt(W.cart(c2))}, expected the opposite of a x b"
                        for nm, o in (("a", X), ("b", Y)):
                            if abs(W.sc(c1.dot(o))) > W.TOL[layer] * s2 * scale:
                                return f"(a x b).{nm} = {mpmath.nstr(W.sc(c1.dot(o)), 10)}, expected 0"
                        lag = W.sc(X.mag2) * W.sc(Y.mag2) - W.sc(X.dot(Y)) ** 2
                        if not W.close(c1.mag2, lag, s2 * scale, layer):
                            return f"|a x b|^2 = {mpmath.nstr(W.sc(c1.mag2), 20)} but |a|^2|b|^2 - (a.b)^2 = {mpmath.nstr(lag, 20)}"
                        return None

                    law("cross_antisymmetric_orthogonal_lagrange", ctx, f_cross, case)

            # ------------------------------------------------------------ triples
            c = partners[(partners.index(b) + 1) % len(partners)]
            gc = c.mp()
            for sb in trip_sb:
                if only_sb is not None and tuple(only_sb) != sb:
                    continue
                for sc_ in (sb, L.CART[dim]):
                    case = {"flavor": flavor, "b": list(b.comps), "sysB": list(sb), "c": list(c.comps), "sysC": list(sc_)}
                    ctx = f"{L.sysname(sb)}|{L.sysname(sc_)}"
                    scale3 = W.scale_of(a, b, c)

                    def f_assoc(sb=sb, sc_=sc_, b=b, c=c, gb=gb, gc=gc, scale3=scale3):
                        X, Y, Z = W.mk(layer, a, sa, flavor), W.mk(layer, b, sb), W.mk(layer, c, sc_)
                        exact = tuple(p + q + r for p, q, r in zip(ga, gb, gc))
                        xy = X.add(Y)
                        need(tuple(p + q for p, q in zip(ga, gb)), xy, scale3)
                        yz = Y.add(Z)
                        need(tuple(p + q for p, q in zip(gb, gc)), yz, scale3)
                        lhs, rhs = xy.add(Z), X.add(yz)
                        need(exact, lhs, scale3)
                        need(exact, rhs, scale3)
                        if not W.vclose(W.cart(lhs), W.cart(rhs), scale3, layer) or not W.vclose(W.cart(lhs), exact, scale3, layer):
                            return f"(a+b)+c = {W.fmt(W.cart(lhs))}, a+(b+c) = {W.fmt(W.cart(rhs))}, expected {W.fmt(exact)}"
                        return None

                    law("addition_associative", ctx, f_assoc, case)

                    def f_bilinear(sb=sb, sc_=sc_, b=b, c=c, gb=gb, gc=gc, scale3=scale3):
                        X, Y, Z = W.mk(layer, a, sa, flavor), W.mk(layer, b, sb), W.mk(layer, c, sc_)
                        k = facts[1]
                        kk = W.num(layer, k)
                        s = scale3 * 4
                        kx = X.scale(kk)
                        need(tuple(mpf(k) * p for p in ga), kx, s)
                        kxc = kx.add(Z)
                        need(tuple(mpf(k) * p + r for p, r in zip(ga, gc)), kxc, s)
                        lhs = kxc.dot(Y)
                        rhs = mpf(k) * W.sc(X.dot(Y)) + W.sc(Z.dot(Y))
                        if not W.close(lhs, rhs, s * scale3, layer):
                            return f"(ka+c).b = {mpmath.nstr(W.sc(lhs), 20)} but k a.b + c.b = {mpmath.nstr(rhs, 20)}"
                        if dim == 3:
                            l1 = kxc.cross(Y)
                            r1 = kx.cross(Y).add(Z.cross(Y))
                            ex = tuple(mpf(k) * p + q for p, q in zip(G.cross(ga, gb), G.cross(gc, gb)))
                            need(ex, l1, s)
                            need(ex, r1, s)
                            if not W.vclose(W.cart(l1), W.cart(r1), s * scale3, layer):
                                return f"(ka+c) x b = {W.fmt(W.cart(l1))} but k a x b + c x b = {W.fmt(W.cart(r1))}"
                        return None

                    law("dot_and_cross_bilinear", ctx, f_bilinear, case)


# ------------------------------------------------------------------------------------- operator / ufunc forms
def _vals(x):
    if isinstance(x, ak.Array):
        return [float(v) for v in B.flat_leaves(ak.to_list(x))]
    if isinstance(x, np.ndarray):
        return [float(v) for v in x.reshape(-1)]
    return [float(x)]


def run_forms(res: Result, dim, sa, tier):
    """operators and numpy ufuncs agree with the method forms on OBJ / NP / AKA (float64)."""
    vs = [v for v in _vectors(dim, tier) if not v.has("near_axis") and not v.has("negtime") and not v.has("fast")]
    if dim == 4:
        vs = [v for v in vs if v.has("timelike")]
    partners = A.partners(dim, tier)
    rows_a, rows_b = [], []
    sb = L.SYSTEMS[dim][(L.SYSTEMS[dim].index(tuple(sa)) + 1) % len(L.SYSTEMS[dim])]
    for i, v in enumerate(vs):
        p = partners[i % len(partners)]
        s0, s1 = S.stored(v, tuple(sa)), S.stored(p, sb)
        if s0 is None or s1 is None:
            continue
        rows_a.append(tuple(float(x) for x in s0))
        rows_b.append(tuple(float(x) for x in s1))
    if not rows_a:
        return
    nn, n2 = _norm_name(dim), _norm2_name(dim)
    for backend in ("OBJ", "NP", "AKA"):
        for flavor in ("generic", "momentum"):
            if backend == "OBJ":
                As = [B.make_obj(tuple(sa), flavor, r) for r in rows_a]
                Bs = [B.make_obj(sb, "generic", r) for r in rows_b]
                pairs = list(zip(As, Bs))
            elif backend == "NP":
                pairs = [(B.make_np(tuple(sa), flavor, rows_a), B.make_np(sb, "generic", rows_b))]
            else:
                pairs = [(B.make_ak(tuple(sa), flavor, rows_a, "jagged"), B.make_ak(sb, "generic", rows_b, "jagged"))]
            forms = {
                "a + b": (lambda x, y: x + y, lambda x, y: x.add(y)),
                "numpy.add": (lambda x, y: np.add(x, y), lambda x, y: x.add(y)),
                "a - b": (lambda x, y: x - y, lambda x, y: x.subtract(y)),
                "numpy.subtract": (lambda x, y: np.subtract(x, y), lambda x, y: x.subtract(y)),
                "a * 2.5": (lambda x, y: x * 2.5, lambda x, y: x.scale(2.5)),
                "-0.5 * a": (lambda x, y: -0.5 * x, lambda x, y: x.scale(-0.5)),
                "numpy.multiply": (lambda x, y: np.multiply(x, 2.5), lambda x, y: x.scale(2.5)),
                "a / 4": (lambda x, y: x / 4, lambda x, y: x.scale(0.25)),
                "numpy.true_divide": (lambda x, y: np.true_divide(x, 4), lambda x, y: x.scale(0.25)),
                "-a": (lambda x, y: -x, lambda x, y: x.scale(-1)),
                "numpy.negative": (lambda x, y: np.negative(x), lambda x, y: x.scale(-1)),
                "+a": (lambda x, y: +x, lambda x, y: x),
                "abs(a)": (lambda x, y: abs(x), lambda x, y: getattr(x, nn)),
                "numpy.absolute": (lambda x, y: np.absolute(x), lambda x, y: getattr(x, nn)),
                "a ** 2": (lambda x, y: x**2, lambda x, y: getattr(x, n2)),
                "numpy.square": (lambda x, y: np.square(x), lambda x, y: getattr(x, n2)),
                "a ** 3": (lambda x, y: x**3, lambda x, y: getattr(x, nn) ** 3),
                "numpy.power": (lambda x, y: np.power(x, 3), lambda x, y: getattr(x, nn) ** 3),
                "numpy.sqrt": (lambda x, y: np.sqrt(x), lambda x, y: np.sqrt(getattr(x, nn))),
                "numpy.cbrt": (lambda x, y: np.cbrt(x), lambda x, y: np.cbrt(getattr(x, nn))),
            }
            if backend != "AKA":
                forms["a @ b"] = (lambda x, y: x @ y, lambda x, y: x.dot(y))
                forms["numpy.matmul"] = (lambda x, y: np.matmul(x, y), lambda x, y: x.dot(y))
            for fname, (f, g) in forms.items():
                res.states += 1
                case = {"kind": "forms", "dim": dim, "sysA": list(sa), "sysB": list(sb), "backend": backend, "flavor": flavor, "form": fname}
                cls = f"form|{fname}|{dim}D|{L.sysname(tuple(sa))}|{backend}"
                try:
                    for x, y in pairs:
                        res.transitions += 2
                        r1, r2 = f(x, y), g(x, y)
                        if isinstance(r2, (vector_types())):
                            k1, k2 = B.result_rows(r1), B.result_rows(r2)
                            if k1[:3] != k2[:3] or type(r1) is not type(r2):
                                res.violation(cls + "|type", f"{fname} gives {type(r1).__name__}{k1[1:3]}, method gives {type(r2).__name__}{k2[1:3]}", case)
                                break
                            if not _rows_close(k1[3], k2[3]):
                                res.violation(cls + "|value", f"{fname} gives {k1[3][:2]}, method gives {k2[3][:2]}", case)
                                break
                        else:
                            v1, v2 = _vals(r1), _vals(r2)
                            if len(v1) != len(v2) or not all(_fclose(p, q) for p, q in zip(v1, v2)):
                                res.violation(cls + "|value", f"{fname} gives {v1[:3]}, the norm-based definition gives {v2[:3]}", case)
                                break
                    else:
                        res.traces += 1
                        res.evaluations += 1
                        res.nontrivial += 1
                except Exception as e:  # noqa: BLE001
                    res.violation(cls + "|raises", f"{fname} raised {type(e).__name__}: {str(e).strip()[:150]}", case)


def vector_types():
    import vector

    return (vector.Vector,)


def _fclose(p, q):
    if p != p or q != q:
        return p != p and q != q
    return abs(p - q) <= 1e-11 * max(1.0, abs(p), abs(q))


def _rows_close(r1, r2):
    if len(r1) != len(r2):
        return False
    for a, b in zip(r1, r2):
        if (a is None) != (b is None):
            return False
        if a is not None and not all(_fclose(p, q) for p, q in zip(a, b)):
            return False
    return True


def run_shard(shard, tier):
    res = Result()
    dim, sa = shard["dim"], tuple(shard["sysA"])
    if shard["kind"] == "laws":
        vs = _vectors(dim, tier)
        for a in vs:
            run_laws(res, a, sa, tier)
        res.sample({"kind": "laws", "dim": dim, "sysA": list(sa), "first_operands": len(vs), "example": list(vs[0].comps)})
    else:
        run_forms(res, dim, sa, tier)
    return res


def replay(case):
    res = Result()
    if case.get("kind") == "forms":
        run_forms(res, case["dim"], tuple(case["sysA"]), "thorough")
        return res
    comps = case["a"]
    tags = set()
    if len(comps) == 4:
        m2 = sum(c * c for c in comps[:3])
        tags.add("timelike" if comps[3] ** 2 > m2 else "spacelike")
    a = Vec("a", comps, tags)
    run_laws(res, a, tuple(case["sysA"]), "thorough", only=case.get("law"), only_sb=case.get("sysB"))
    return res
