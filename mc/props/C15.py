"""C15 — in-place updates of object vectors match their functional equivalents.

HistoryExplorer: depth-bounded *exhaustive* search over sequences of events (coordinate
assignments through every generic and momentum spelling, += -= *= /=, and raising
events) applied to live VectorObject / MomentumObject instances (float64 and 60-digit),
from every coordinate system and flavor as initial state.  After every event the real
object is compared with M_store, an explicit model of the three stored-coordinate slots.
A state is the history that reaches it (the object is rebuilt and the prefix replayed);
concrete states are never merged; the abstract graph (class, coordinate system) is kept
as node / labelled-edge sets for bookkeeping.
"""

from __future__ import annotations

import itertools

import mpmath
from mpmath import mpf

from .. import alphabet as A
from .. import lattice as L
from .. import model as G
from .. import sweep as S
from ..alphabet import Vec
from ..mplib import MP_CLASS, OBJ_CLASS
from ..result import Result

import vector  # noqa: E402

ID = "C15"
RULE = (
    "a state is an event history (initial vector, coordinate system, flavor, layer; then events); every history up to the depth bound is executed on a live "
    "object and the object is compared with the stored-coordinate model after every event; states = histories executed, transitions = events applied; "
    "non-trivial = histories of length >= 2, or whose event changes the coordinate system / raises; distinct histories are never merged"
)
ASSUMPTIONS = [
    "M_store: an assignment replaces one coordinate group (the assigned coordinate verbatim, its partner re-derived from the previous state, other groups' coordinate objects untouched); an in-place operator stores the functional result re-expressed in the object's current systems; a raising event changes nothing",
    "partner coordinates / in-place results are compared to 1e-40 (60 digits) or 1e-9 (float64); the functional comparison is made only when the functional result is representable in the object's own systems (e.g. not for a tau-stored object whose result has negative time) - such steps still get the identity / class / system clauses",
    "values: dyadic rationals; factors 2 and -0.5; no NaN / inf",
]
CAP_S = {"quick": 1500, "thorough": 7200}

GENERIC_SET = {2: ["x", "y", "rho", "phi"], 3: ["x", "y", "rho", "phi", "z", "theta", "eta"], 4: ["x", "y", "rho", "phi", "z", "theta", "eta", "t", "tau"]}
MOM_SET = {2: ["px", "py", "pt"], 3: ["px", "py", "pt", "pz"], 4: ["px", "py", "pt", "pz", "E", "e", "energy", "M", "m", "mass"]}
SYN = {"px": "x", "py": "y", "pt": "rho", "pz": "z", "E": "t", "e": "t", "energy": "t", "M": "tau", "m": "tau", "mass": "tau"}
VALUES = {"x": [1.75, -0.375], "y": [-2.25, 0.625], "rho": [1.375, 3.5], "phi": [0.4375, -2.75], "z": [-1.125, 2.5], "theta": [0.8125, 2.375], "eta": [-0.5625, 1.25],
          "t": [6.5, 9.25], "tau": [2.125, 0.75]}
INIT = {2: (1.5, 0.75), 3: (1.5, 0.75, 0.875), 4: (1.5, 0.75, 0.875, 2.5)}
OPERAND = {2: (-0.625, 2.25), 3: (-0.625, 2.25, -1.375), 4: (-0.625, 2.25, -1.375, 3.5)}
OPERAND_T = {2: (0.0, 2.25), 3: (-0.625, 2.25, 0.0), 4: (-0.625, 2.25, 0.0, 3.5)}  # a purely transverse kick (z exactly 0; 2D: x exactly 0)


def _operand(ev, dim):
    return OPERAND_T[dim] if len(ev) > 3 and ev[3] == "transverse" else OPERAND[dim]


def bounds(tier):
    return {"tier": tier, "depth": {"quick": 2, "thorough": "3 (float64, one value per setter); 2 (60 digits)"}[tier], "initial_states": "all 20 systems x 2 flavors x {float64, 60 digits}",
            "events_4D_momentum": len(events(4, "momentum", tier, 2))}


def events(dim, flavor, tier, depth):
    """The event alphabet for a class (simplest first)."""
    ev = []
    names = GENERIC_SET[dim] + (MOM_SET[dim] if flavor == "momentum" else [])
    nvals = 2 if depth <= 2 else 1
    for n in names:
        g = SYN.get(n, n)
        for val in VALUES[g][:nvals]:
            ev.append(("set", n, val))
    # coincidences: assign to a coordinate the value that is *currently stored* in a slot of the same group (v.theta = <stored z>,
    # v.rho = <stored x>, v.tau = <stored t> ...): a value-equal coordinate object of another kind must not be mistaken for "no change"
    pos_of_group = {0: (0, 1), 1: (2,), 2: (3,)}
    for n in names:
        for k in pos_of_group[GROUP[SYN.get(n, n)]]:
            ev.append(("setc", n, k))
    other_systems = [L.CART[dim], L.SYSTEMS[dim][-1], L.SYSTEMS[dim][len(L.SYSTEMS[dim]) // 2]]
    for opn in ("+=", "-="):
        for osys in dict.fromkeys(other_systems):
            for ofl in (("generic", "momentum") if depth <= 2 else ("generic",)):
                ev.append((opn, list(osys), ofl))
        ev.append((opn, list(L.CART[dim]), "generic", "transverse"))
    for opn in ("*=", "/="):
        for f in (2.0, -0.5):
            ev.append((opn, f))
    ev += [("raise", "+=otherdim"), ("raise", "+=number"), ("raise", "*=vector"), ("raise", "/=zero"), ("raise", "/=str")]
    return ev


def shards(tier):
    out = []
    for dim in (2, 3, 4):
        for s in L.SYSTEMS[dim]:
            for flavor in ("generic", "momentum"):
                for layer in ("L2", "L1"):
                    depth = 2 if (tier == "quick" or layer == "L1") else 3
                    if depth == 3 and dim == 4:
                        # split the 4D depth-3 space by first event
                        n = len(events(dim, flavor, tier, depth))
                        for k in range(0, n, 8):
                            out.append({"dim": dim, "sys": list(s), "flavor": flavor, "layer": layer, "depth": depth, "first": [k, min(n, k + 8)]})
                    else:
                        out.append({"dim": dim, "sys": list(s), "flavor": flavor, "layer": layer, "depth": depth})
    for dim in (2, 3, 4):
        for s in L.SYSTEMS[dim]:
            out.append({"kind": "number_kinds", "dim": dim, "sys": list(s), "depth": 2 if tier == "quick" else 3})
    return out


# ---------------------------------------------------------------------------------- model
class Model:
    """M_store: the three slots of an object vector, with exact values."""

    def __init__(self, system, stored):
        self.system = tuple(system)
        self.stored = tuple(stored)

    def cart(self):
        return G.from_stored(self.system, tuple(mpf(x) if not isinstance(x, mpf) else x for x in self.stored))


def num(layer, x):
    return mpf(x) if layer == "L1" else float(x)


def build(dim, system, flavor, layer, comps):
    v = Vec("init", comps, set())
    st = S.stored(v, system)
    cls = (MP_CLASS if layer == "L1" else OBJ_CLASS)[(flavor, dim)]
    if layer == "L2":
        st = tuple(float(x) for x in st)
    return L.build_object(cls, system, st)


def slots(v):
    out = [v.azimuthal]
    if hasattr(v, "longitudinal"):
        out.append(v.longitudinal)
    if hasattr(v, "temporal"):
        out.append(v.temporal)
    return out


def tol(layer):
    return mpf(10) ** -40 if layer == "L1" else mpf(10) ** -9


def m(x):
    return x if isinstance(x, mpf) else mpf(float(x))


def close(a, b, layer, scale=1):
    a, b = m(a), m(b)
    return abs(a - b) <= tol(layer) * max(mpf(scale), abs(a), abs(b), 1)


def apply_event(v, ev, dim, layer):
    """Apply one event to the live object.  Returns (new binding of the name, exception or None, operand)."""
    kind = ev[0]
    if kind == "set":
        setattr(v, ev[1], num(layer, ev[2]))
        return v, None
    if kind in ("+=", "-="):
        other = build(dim, tuple(ev[1]), ev[2], layer, _operand(ev, dim))
        if kind == "+=":
            v += other
        else:
            v -= other
        return v, other
    if kind == "*=":
        v *= num(layer, ev[1])
        return v, None
    if kind == "/=":
        v /= num(layer, ev[1])
        return v, None
    if kind == "raise":
        what = ev[1]
        if what == "+=otherdim":
            od = 3 if dim != 3 else 2
            other = build(od, L.CART[od], "generic", layer, INIT[od])
            v += other
        elif what == "+=number":
            v += 3
        elif what == "*=vector":
            v *= build(dim, L.CART[dim], "generic", layer, OPERAND[dim])
        elif what == "/=zero":
            v /= 0
        elif what == "/=str":
            v /= "a"
        return v, None
    raise KeyError(kind)


GROUP = {"x": 0, "y": 0, "rho": 0, "phi": 0, "z": 1, "theta": 1, "eta": 1, "t": 2, "tau": 2}
AZ_PARTNER = {"x": ("xy", 0, "y"), "y": ("xy", 1, "x"), "rho": ("rhophi", 0, "phi"), "phi": ("rhophi", 1, "rho")}


def check_step(res, v, before_id, before_type, before_slots, before_sys, before_st, ev, exc, layer, dim, hist, flavor0):
    """Compare the live object after one event with M_store."""
    kind = ev[0]
    sys_now, st_now = L.system_of(v)
    ident = f"{dim}D|{L.sysname(before_sys)}|{layer}"

    def viol(clause, msg):
        evname = ev[0] + (":" + str(ev[1]) if ev[0] in ("set", "raise") else "")
        res.violation(f"{clause}|{evname}|{ident}", msg, {"history": hist, "layer": layer, "dim": dim})

    if id(v) != before_id or type(v) is not before_type:
        viol("identity", f"object identity/class changed: {before_type.__name__} -> {type(v).__name__}")
        return False
    if kind == "raise" or exc is not None:
        if kind == "raise" and exc is None:
            viol("no_exception", f"event {ev} did not raise")
            return False
        if kind != "raise":
            viol("unexpected_exception", f"event {ev} raised {type(exc).__name__}: {exc}")
            return False
        if not all(a is b for a, b in zip(slots(v), before_slots)):
            viol("raise_changed_object", f"event {ev} raised {type(exc).__name__} but the stored coordinates changed: {before_st} -> {st_now}")
            return False
        return True
    prev_c = G.from_stored(before_sys, tuple(m(x) for x in before_st))
    if kind == "set":
        name = SYN.get(ev[1], ev[1])
        val = num(layer, ev[2])
        grp = GROUP[name]
        # other groups: the very same coordinate objects
        for gi, (a, b) in enumerate(zip(slots(v), before_slots)):
            if gi != grp and a is not b:
                viol("other_group_touched", f"assigning {ev[1]} replaced coordinate group {gi}: {b!r} -> {a!r}")
                return False
        got = getattr(v, ev[1])
        if not (got == val) or not (getattr(v, name) == val):
            viol("readback", f"v.{ev[1]} = {val!r} reads back as {got!r}")
            return False
        if grp == 0:
            want_sys, idx, partner = AZ_PARTNER[name]
            if sys_now[0] != want_sys or sys_now[1:] != before_sys[1:]:
                viol("system_after_set", f"after assigning {ev[1]} the system is {sys_now}, expected azimuthal {want_sys} and the rest of {before_sys}")
                return False
            if not (st_now[idx] == val):
                viol("stored_value", f"assigned {ev[1]} = {val!r} stored as {st_now[idx]!r}")
                return False
            # partner: previous value of that quantity
            if before_sys[0] == want_sys:
                if st_now[1 - idx] is not before_st[1 - idx] and not (st_now[1 - idx] == before_st[1 - idx]):
                    viol("partner", f"partner coordinate {partner} changed from {before_st[1 - idx]!r} to {st_now[1 - idx]!r}")
                    return False
            elif prev_c is not None:
                x, y = prev_c[0], prev_c[1]
                want = {"x": x, "y": y, "rho": G.hyp(x, y), "phi": mpmath.atan2(y, x)}[partner]
                if not close(st_now[1 - idx], want, layer):
                    viol("partner", f"partner coordinate {partner} = {st_now[1 - idx]!r}, previous value of that quantity was {mpmath.nstr(want, 20)}")
                    return False
        else:
            want_sys = list(before_sys)
            want_sys[grp] = name
            if sys_now != tuple(want_sys):
                viol("system_after_set", f"after assigning {ev[1]} the system is {sys_now}, expected {tuple(want_sys)}")
                return False
            pos = 2 if grp == 1 else 3
            if not (st_now[pos] == val):
                viol("stored_value", f"assigned {ev[1]} = {val!r} stored as {st_now[pos]!r}")
                return False
        # equals the functionally built vector
        kw = {"azimuthal": v.azimuthal}
        if dim > 2:
            kw["longitudinal"] = v.longitudinal
        if dim > 3:
            kw["temporal"] = v.temporal
        f = type(v)(**kw)
        if L.system_of(f) != (sys_now, st_now):
            viol("functional", "vector differs from the functionally built one")
            return False
        return True
    # in-place operators
    if sys_now != before_sys:
        viol("system_after_inplace", f"{kind} changed the coordinate system {before_sys} -> {sys_now}")
        return False
    if prev_c is None:
        res.count("previous_state_not_representable")
        return True
    if kind in ("+=", "-="):
        o = tuple(mpf(c) for c in _operand(ev, dim))
        if layer == "L2":
            ost = S.stored(Vec("o", _operand(ev, dim), set()), tuple(ev[1]))
            o = G.from_stored(tuple(ev[1]), tuple(mpf(float(x)) for x in ost))
        exp = tuple(p + q for p, q in zip(prev_c, o)) if kind == "+=" else tuple(p - q for p, q in zip(prev_c, o))
    else:
        f = mpf(ev[1])
        exp = tuple(p * f for p in prev_c) if kind == "*=" else tuple(p / f for p in prev_c)
    scale = max([mpf(1)] + [abs(c) for c in exp] + [abs(c) for c in prev_c]) ** 2 * 4
    margin = (mpf(10) ** -30 if layer == "L1" else mpf(10) ** -6) * scale
    if (len(sys_now) > 1 and sys_now[1] in ("theta", "eta") and G.hyp(exp[0], exp[1]) < margin) or (len(sys_now) > 2 and sys_now[2] == "tau" and exp[3] < margin):
        res.count("inplace_result_not_representable_in_own_system")
        return True
    now_c = G.from_stored(sys_now, tuple(m(x) for x in st_now))
    if now_c is None or not all(abs(a - b) <= tol(layer) * scale for a, b in zip(now_c, exp)):
        viol("inplace_value", f"after {kind} the vector is {now_c and [mpmath.nstr(c, 18) for c in now_c]}, the functional result is {[mpmath.nstr(c, 18) for c in exp]}")
        return False
    return True


def explore(res: Result, dim, system, flavor, layer, depth, tier, graph, first_range=None, only_history=None):
    evs = events(dim, flavor, tier, depth)

    def run_history(hist):
        """Rebuild the object, replay the prefix, apply and check the last event."""
        v = build(dim, system, flavor, layer, INIT[dim])
        ok = True
        for i, ev in enumerate(hist):
            before_id, before_type, before_slots = id(v), type(v), slots(v)
            before_sys, before_st = L.system_of(v)
            if ev[0] == "setc":
                val = before_st[ev[2]]
                if (SYN.get(ev[1], ev[1]) == "rho" and val < 0) or (ev[1] == "theta" and not (0 <= val <= 3.140625)):
                    return False  # a negative rho or a polar angle outside [0, pi] is not a legitimate value to assign
                ev = ("set", ev[1], val)
            exc = None
            try:
                v2, _ = apply_event(v, ev, dim, layer)
                v = v2
            except Exception as e:  # noqa: BLE001
                exc = e
            res.transitions += 1
            if i == len(hist) - 1 or only_history is not None:
                res.traces += 1
                ok = check_step(res, v, before_id, before_type, before_slots, before_sys, before_st, ev, exc, layer, dim, [list(e) if not isinstance(e, list) else e for e in hist], flavor)
                a = f"{type(v).__name__}:{L.sysname(before_sys)}"
                b = f"{type(v).__name__}:{L.sysname(L.system_of(v)[0])}"
                graph.add((a, b, ev[0] + (":" + str(ev[1]) if ev[0] in ("set", "raise") else "")))
            if exc is not None and ev[0] != "raise":
                return False
        return ok

    if only_history is not None:
        run_history([tuple(e) for e in only_history])
        res.states += 1
        return
    firsts = evs if first_range is None else evs[first_range[0] : first_range[1]]
    frontier = [(e,) for e in firsts]
    for d in range(1, depth + 1):
        nxt = []
        for hist in frontier:
            res.states += 1
            res.evaluations += 1
            ok = run_history(list(hist))
            if len(hist) >= 2 or hist[-1][0] in ("raise", "set", "setc"):
                res.nontrivial += 1
            if ok and d < depth:
                for e in evs:
                    nxt.append(hist + (e,))
        frontier = nxt


# ---------------------------------------------------------------------------------- number kinds
import numpy as _np  # noqa: E402

KINDS = {"int": int, "np.int64": _np.int64, "np.int32": _np.int32, "np.float32": _np.float32, "np.float64": _np.float64, "float": float}
KIND_INIT = {"x": 3, "y": -2, "rho": 3, "phi": 1, "z": -5, "theta": 2, "eta": -1, "t": 9, "tau": 4}
KIND_EVENTS = [("*=", 2), ("*=", 2.0), ("/=", 4), ("*=", 0.75), ("*=", -3), ("/=", _np.int64(-2)), ("+=", "float"), ("-=", "int"), ("+=", "same")]
KIND_OPERAND = {"x": (0.625, 2), "y": (1.25, 1), "rho": (1.375, 2), "phi": (-0.4375, 2), "z": (2.5, 3), "theta": (0.8125, 1), "eta": (0.5625, 1), "t": (11.25, 12), "tau": (3.5, 5)}


def _cart(v, dim):
    names = ("x", "y", "z", "t")[:dim]
    return [float(getattr(v, n)) for n in names]


def number_kinds(res: Result, dim, system, depth, only=None):
    """Histories of in-place operators on objects whose stored coordinates are integer-valued numbers of every kind (Python int,
    NumPy int64 / int32, float32, float64): after every event the object is the same object of the same class and coordinate
    system and its Cartesian components equal those of the functional operation applied to a float copy of the state before."""
    names = L.field_names(system)
    for flavor in ("generic", "momentum"):
        cls = OBJ_CLASS[(flavor, dim)]
        for kname, kind in KINDS.items():
            rtol = 1e-6 if kname == "np.float32" else 1e-9

            def make(k):
                return L.build_object(cls, system, tuple(k(KIND_INIT[n]) for n in names))

            def operand(which, v):
                if which == "same":
                    return make(kind)
                j = 0 if which == "float" else 1
                return L.build_object(OBJ_CLASS[("generic", dim)], system, tuple((float if j == 0 else int)(KIND_OPERAND[n][j]) for n in names))

            frontier = [(e,) for e in KIND_EVENTS]
            for d in range(1, depth + 1):
                nxt = []
                for hist in frontier:
                    res.states += 1
                    res.evaluations += 1
                    v = make(kind)
                    ok = True
                    for i, (opn, arg) in enumerate(hist):
                        before = L.build_object(cls, system, tuple(float(x) for x in L.system_of(v)[1]))
                        ident, typ = id(v), type(v)
                        res.transitions += 1
                        case = {"kind": "number_kinds", "dim": dim, "sys": list(system), "flavor": flavor, "number_kind": kname, "history": [list(map(str, e)) for e in hist[: i + 1]]}
                        klass = f"number_kinds|{dim}D|{L.sysname(system)}|{kname}|{opn}{arg if not isinstance(arg, str) else ' ' + arg + ' vector'}"
                        try:
                            if opn in ("*=", "/="):
                                want = before * arg if opn == "*=" else before / arg
                                if opn == "*=":
                                    v *= arg
                                else:
                                    v /= arg
                            else:
                                w = operand(arg, v)
                                wf = L.build_object(type(w), system, tuple(float(x) for x in L.system_of(w)[1]))
                                want = before + wf if opn == "+=" else before - wf
                                if opn == "+=":
                                    v += w
                                else:
                                    v -= w
                        except Exception as e:  # noqa: BLE001
                            res.violation(klass + "|raises", f"{opn} {arg!r} on a {kname}-valued {L.sysname(system)} object raised {type(e).__name__}: {e}", case)
                            ok = False
                            break
                        if i < len(hist) - 1:
                            continue
                        res.traces += 1
                        got, exp = _cart(v, dim), _cart(want, dim)
                        if not all(x == x and abs(x) != float("inf") for x in exp) or max(abs(x) for x in exp[: min(dim, 3)]) < 1e-9:
                            # the history cancelled the vector exactly (v *= 2; v /= -2; v += same): the zero vector has no angles
                            res.count("history_ends_in_a_degenerate_vector")
                            ok = False
                            continue
                        scale = max(1.0, max(abs(x) for x in exp))
                        if id(v) != ident or type(v) is not typ or L.system_of(v)[0] != tuple(system):
                            res.violation(klass + "|identity", f"after {hist}: object identity / class / coordinate system changed ({type(v).__name__}, {L.system_of(v)[0]})", case)
                            ok = False
                        elif not all(abs(g - e) <= rtol * scale for g, e in zip(got, exp)):
                            res.violation(klass, f"{kname}-valued {L.sysname(system)} {flavor} object after {[list(map(str, e)) for e in hist]}: Cartesian components {got}, the functional operation on a float copy gives {exp}", case)
                            ok = False
                        else:
                            res.nontrivial += 1
                    if ok and d < depth:
                        for e in KIND_EVENTS:
                            nxt.append(hist + (e,))
                frontier = nxt


def run_shard(shard, tier):
    res = Result()
    if shard.get("kind") == "number_kinds":
        number_kinds(res, shard["dim"], tuple(shard["sys"]), shard["depth"])
        res.counters["depth_max"] = shard["depth"]
        return res
    graph = set()
    dim, system = shard["dim"], tuple(shard["sys"])
    explore(res, dim, system, shard["flavor"], shard["layer"], shard["depth"], tier, graph, shard.get("first"))
    for a, b, lab in graph:
        res.add_to("abstract_states", a)
        res.add_to("abstract_states", b)
        res.add_to("abstract_edges", f"{a} --{lab}--> {b}")
    res.counters["depth_max"] = shard["depth"]
    if shard.get("first") in (None, [0, 8]):
        res.sample({"initial": {"dim": dim, "system": list(system), "flavor": shard["flavor"], "layer": shard["layer"], "vector": list(INIT[dim])},
                    "example_history": [list(e) for e in events(dim, shard["flavor"], tier, shard["depth"])[:2]], "depth": shard["depth"]})
    return res


def finalize(total, tier, complete):
    ns = len(total.sets.get("abstract_states", ()))
    ne = len(total.sets.get("abstract_edges", ()))
    total.counters["abstract_graph_states"] = ns
    total.counters["abstract_graph_edges"] = ne
    total.sets.pop("abstract_edges", None)


def replay(case):
    res = Result()
    if case.get("kind") == "number_kinds":
        number_kinds(res, case["dim"], tuple(case["sys"]), len(case["history"]))
        return res
    hist = case["history"]
    dim = case["dim"]
    graph = set()
    # the initial state is not recorded in the history; replay from every system/flavor is cheap
    for system in L.SYSTEMS[dim]:
        for flavor in ("generic", "momentum"):
            try:
                explore(res, dim, system, flavor, case["layer"], len(hist), "quick", graph, only_history=hist)
            except AttributeError:
                pass
    return res
