"""Enumeration of (operation, operands, scalar arguments) cases and their execution on
the exact (MP) and float64 object layers.  Shared by C01, C02, C09, C10, C11, C13."""

from __future__ import annotations

import itertools

import mpmath
from mpmath import mpf

from . import alphabet as A
from . import lattice as L
from . import model as G
from .catalogue import OPS, Op
from .mplib import MP_CLASS, OBJ_CLASS

TOL_L1 = mpf(10) ** -40


# ------------------------------------------------------------------ scalar families
def scalar_family(fam, tier):
    th = tier == "thorough"
    if fam == "factor":
        return [{"factor": f} for f in (A.FACTORS_T if th else A.FACTORS_Q)]
    if fam == "angle":
        return [{"angle": a} for a in (A.ANGLES_T if th else A.ANGLES_Q)]
    if fam == "euler":
        trip = A.EULER_TRIPLES_T if th else A.EULER_TRIPLES_Q
        return [{"phi": p, "theta": t, "psi": s, "order": o} for o in A.EULER_ORDERS for (p, t, s) in trip]
    if fam == "nautical":
        trip = A.EULER_TRIPLES_T if th else A.EULER_TRIPLES_Q
        return [{"yaw": p, "pitch": t, "roll": s} for (p, t, s) in trip]
    if fam == "quaternion":
        return [{"quat_spec": q} for q in (A.QUAT_SPECS_T if th else A.QUAT_SPECS_Q)]
    if fam == "matrix2":
        return [{"matrix": A.MATRIX2}]
    if fam == "matrix3":
        return [{"matrix": A.MATRIX3}]
    if fam == "matrix4":
        return [{"matrix": A.MATRIX4}]
    if fam == "beta":
        return [{"beta": b} for b in (A.BETAS_T if th else A.BETAS_Q)]
    if fam == "gamma":
        return [{"gamma": g} for g in A.gammas(A.BETAS_T if th else A.BETAS_Q)]
    if fam == "tol0":
        return [{"tolerance": 0.0}]
    if fam == "tol_light":
        return [{"tolerance": 1e-5}]
    if fam == "tol_angle":
        return [{"tolerance": 1e-5}] + ([{"tolerance": 0.25}] if th else [])
    if fam == "rtol_atol":
        return [{"rtol": 1e-5, "atol": 1e-8}]
    raise KeyError(fam)


def scalar_sets(op: Op, tier):
    fams = [scalar_family(f, tier) for f in op.scalars]
    out = []
    for combo in itertools.product(*fams) if fams else [()]:
        d = {}
        for c in combo:
            d.update(c)
        out.append(d)
    return out


def mp_scalars(s):
    """Scalar dict (floats, exactly representable) -> mpf arguments for MP calls."""
    out = {}
    for k, v in s.items():
        if k == "quat_spec":
            u, i, j, kk = A.unit_quaternion(*v)
            out.update(u=u, i=i, j=j, k=kk)
        elif k == "matrix":
            out[k] = {n: mpf(x) for n, x in v.items()}
        elif k == "order":
            out[k] = v
        else:
            out[k] = mpf(v)
    return out


def float_scalars(s):
    out = {}
    for k, v in s.items():
        if k == "quat_spec":
            u, i, j, kk = A.unit_quaternion(*v)
            out.update(u=float(u), i=float(i), j=float(j), k=float(kk))
        else:
            out[k] = v
    return out


# ------------------------------------------------------------------ operand families
def _beta3_partners(tier):
    pts = [(-0.21875, 0.40625, -0.140625), (0.53125, -0.171875, 0.296875), (-0.453125, -0.0390625, 0.59375)]
    if tier == "thorough":
        pts += [(0.109375, 0.265625, -0.78125), (-0.5625, 0.5625, 0.5625)]  # |b| ~ 0.83, 0.974
    return [A.Vec(f"beta{i}", p, {"generic", "velocity"}) for i, p in enumerate(pts)]


def _booster_p4(tier):
    return [v for v in A.partners(4, "thorough" if tier == "thorough" else "quick") if v.has("forward_timelike")]


def _relative_partners(a: A.Vec, tier):
    """Second operands built relative to `a` for the angle predicates: parallel,
    antiparallel, perpendicular (exact), used in addition to the independent ones."""
    c = a.comps
    n = len(c)
    out = [A.Vec("par", tuple(1.5 * x for x in c), {"parallel"}), A.Vec("anti", tuple(-0.75 * x for x in c), {"antiparallel"})]
    if n == 2:
        out.append(A.Vec("perp", (-c[1] * 0.5, c[0] * 0.5), {"perpendicular"}))
    else:
        # (y, -x, 0) is perpendicular to (x, y, z) in 3D; keep t for 4D
        p = (c[1], -c[0], 0.0) + (() if n == 3 else (c[3],))
        out.append(A.Vec("perp", p, {"perpendicular"}))
    return out


def operand_cases(op: Op, dimA, dimB, tier, boundary=False):
    """All (first operand, second operand or None) pairs for an operation."""
    kinds = ("timelike", "fast", "spacelike", "spacelike_tltz", "negtime")
    firsts = A.vectors(dimA, tier, boundary=boundary and op.name in ("is_lightlike",)) if dimA < 4 else A.vectors4(tier, boundary and op.name in ("is_lightlike",), kinds=kinds)
    if op.name in ("equal", "not_equal", "isclose"):
        # comparisons are defined on *stored* coordinates for same-system operands (property C12), so a vector whose
        # azimuth is stored one turn away is, by contract, not equal/close to its canonical twin: no wildphi here
        firsts = [a for a in firsts if not a.has("wildphi")]
    if op.other is None:
        return [(a, None) for a in firsts]
    if op.name in ("boost_p4", "boostCM_of_p4") or (op.name in ("boost", "boostCM_of") and dimB == 4):
        seconds = _booster_p4(tier)
    elif op.name in ("boost_beta3", "boostCM_of_beta3") or (op.name in ("boost", "boostCM_of") and dimB == 3):
        seconds = _beta3_partners(tier)
    else:
        seconds = A.partners(dimB, tier)
        if op.name == "rotate_axis":
            # axes in the all-negative and all-positive octants too (the partners cover mixed-sign octants only)
            seconds = list(seconds) + [A.Vec("axis---", (-0.3125, -0.6875, -0.5), {"generic"}), A.Vec("axis+++", (0.375, 0.25, 1.5), {"generic"})]
    out = []
    for a in firsts:
        for b in seconds:
            out.append((a, b))
        if op.name in ("is_parallel", "is_antiparallel", "is_perpendicular") and not a.has("near_axis"):
            for b in _relative_partners(a, tier):
                out.append((a, b))
        if op.name == "isclose":
            out.append((a, A.Vec("same", a.comps, {"same"})))
    return out


def second_dims(op: Op, dimA):
    if op.other is None:
        return [None]
    if op.other == "same":
        return [dimA]
    return list(op.other)


# ------------------------------------------------------------------ stored-value cache
_stored_cache = {}


def stored(vec: A.Vec, system):
    """Exact (60-digit) stored coordinates of an alphabet vector in a system, or None
    when it is not representable there."""
    turns = getattr(vec, "phi_turns", 0)
    key = (vec.comps, system, turns)
    r = _stored_cache.get(key)
    if r is None and key not in _stored_cache:
        g = vec.mp()
        r = G.to_stored(g, system) if G.representable(g, system) else None
        if r is not None and turns and system[0] == "rhophi":
            r = (r[0], r[1] + turns * 2 * G.PI) + tuple(r[2:])
        _stored_cache[key] = r
    return r


def build_mp(vec: A.Vec, system, flavor):
    s = stored(vec, system)
    if s is None:
        return None
    return L.build_object(MP_CLASS[(flavor, vec.dim)], system, s)


def build_float(vec: A.Vec, system, flavor):
    """float64 object vector whose stored coordinates are the roundings of the exact
    ones; also returns the exact geometric vector denoted by those rounded values."""
    s = stored(vec, system)
    if s is None:
        return None, None
    fs = tuple(float(v) for v in s)
    obj = L.build_object(OBJ_CLASS[(flavor, vec.dim)], system, fs)
    return obj, fs


# ------------------------------------------------------------------ result reading
def read_result(op: Op, r):
    """-> ('scalar', mpf) | ('bool', bool) | ('vec', system, stored, cartesian|None)"""
    if op.ret == "vec":
        system, st = L.system_of(r)
        return ("vec", system, st, G.from_stored(system, st))
    if op.ret == "bool":
        return ("bool", bool(r))
    return ("scalar", r if isinstance(r, mpf) else mpf(r))


def close(a, b, scale, tol=TOL_L1):
    """NaN-aware closeness of two mpf scalars relative to `scale`."""
    an, bn = mpmath.isnan(a), mpmath.isnan(b)
    if an or bn:
        return an and bn
    if mpmath.isinf(a) or mpmath.isinf(b):
        return a == b
    return abs(a - b) <= tol * max(scale, abs(a), abs(b))


def angle_close(a, b, tol=TOL_L1):
    """closeness of angles modulo 2 pi (for phi-like results at the +-pi seam)."""
    d = (a - b + G.PI) % (2 * G.PI) - G.PI
    return abs(d) <= tol * 8


def vec_close(ca, cb, scale, tol=TOL_L1):
    return len(ca) == len(cb) and all(close(p, q, scale, tol) for p, q in zip(ca, cb))


def case_scale(op: Op, a: A.Vec, b, s):
    m = max([1.0] + [abs(c) for c in a.comps] + ([abs(c) for c in b.comps] if b is not None else []))
    f = abs(s.get("factor", 1.0)) if isinstance(s.get("factor", 1.0), (int, float)) else 1.0
    g = 1.0
    if "beta" in s:
        g = 1.0 / max(1e-9, (1 - s["beta"] ** 2)) ** 0.5
    if "gamma" in s:
        g = abs(s["gamma"])
    if "matrix" in s:
        f = max(f, 4.0)
    return mpf(max(1.0, m**2) * max(1.0, f) * max(1.0, g) * 4)


def signatures(op: Op, dimA, dimB, mode="all"):
    if dimB is None:
        return [(s, None) for s in L.SYSTEMS[dimA]]
    return L.sig_pairs(dimA, dimB, mode)


def ops_for(names=None, exclude=()):
    return [op for op in OPS if (names is None or op.name in names) and op.name not in exclude]
