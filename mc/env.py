"""Binding to the code under test and process-level plumbing.

Every check process calls ``bind()`` before importing ``vector``: it points the
import system at ``$VECTOR_SRC`` (default ``/repo/src``), moves the bytecode
cache to a private scratch directory (so nothing is read from or written to the
repository), and asserts that the module really came from there.
"""

from __future__ import annotations

import atexit
import hashlib
import os
import shutil
import subprocess
import sys
import tempfile

VERIF = os.path.dirname(os.path.dirname(os.path.abspath(__file__)))
VECTOR_SRC = os.path.abspath(os.environ.get("VECTOR_SRC", "/repo/src"))
GUARD = "SCIKIT_HEP_VECTOR_VERIF"

_bound = False
_scratch = None


def scratch_dir() -> str:
    """A private scratch directory (outside /repo and /verif), removed at exit."""
    global _scratch
    if _scratch is None:
        base = os.environ.get("VERIF_SCRATCH_BASE") or tempfile.gettempdir()
        _scratch = tempfile.mkdtemp(prefix="vverif-", dir=base)
        pid = os.getpid()

        def _cleanup(path=_scratch, pid=pid):
            if os.getpid() == pid:
                shutil.rmtree(path, ignore_errors=True)

        atexit.register(_cleanup)
    return _scratch


def bind():
    """Make ``import vector`` resolve to VECTOR_SRC; idempotent."""
    global _bound
    if _bound:
        return
    os.environ[GUARD] = "1"
    sys.dont_write_bytecode = True
    sys.pycache_prefix = os.path.join(scratch_dir(), "pycache")
    # numba caches nothing to disk unless asked; keep it that way
    os.environ.setdefault("NUMBA_CACHE_DIR", os.path.join(scratch_dir(), "numba"))
    if VECTOR_SRC in sys.path:
        sys.path.remove(VECTOR_SRC)
    sys.path.insert(0, VECTOR_SRC)
    if "vector" in sys.modules:
        raise RuntimeError("vector imported before mc.env.bind()")
    import vector  # noqa: F401

    got = os.path.abspath(vector.__file__)
    if not got.startswith(VECTOR_SRC + os.sep):
        raise RuntimeError(f"vector imported from {got}, expected under {VECTOR_SRC}")
    _bound = True


def source_fingerprint() -> dict:
    """git HEAD (if any) and a content hash of the vector sources being checked."""
    h = hashlib.sha256()
    n = 0
    root = os.path.join(VECTOR_SRC, "vector")
    for d, dirs, files in sorted(os.walk(root)):
        dirs.sort()
        if "__pycache__" in d:
            continue
        for f in sorted(files):
            if f.endswith(".py"):
                p = os.path.join(d, f)
                h.update(os.path.relpath(p, root).encode())
                with open(p, "rb") as fh:
                    h.update(fh.read())
                n += 1
    head = None
    try:
        head = subprocess.run(
            ["git", "-C", os.path.dirname(VECTOR_SRC), "rev-parse", "HEAD"],
            capture_output=True,
            text=True,
            timeout=10,
        ).stdout.strip() or None
    except Exception:
        pass
    return {"vector_src": VECTOR_SRC, "files": n, "sha256": h.hexdigest(), "git_head": head}
