"""Operand builders for every backend from the same float64 stored coordinates, result
flattening, and bit-for-bit operand snapshots (the C16 monitor)."""

from __future__ import annotations

import numpy as np

from . import env

env.bind()

import awkward as ak  # noqa: E402
import vector  # noqa: E402

from . import lattice as L  # noqa: E402
from .mplib import OBJ_CLASS  # noqa: E402

BACKENDS = ("OBJ", "NP", "AKA", "AKR")


def recname(flavor, dim):
    return ("Momentum" if flavor == "momentum" else "Vector") + f"{dim}D"


def make_obj(system, flavor, row):
    return L.build_object(OBJ_CLASS[(flavor, len(row))], system, tuple(float(v) for v in row))


def make_np(system, flavor, rows, shape=None, extra=None):
    """NumPy vector array from rows of stored coordinates (public constructor, dict form)."""
    names = L.field_names(system, flavor)
    a = np.asarray(rows, dtype=np.float64).reshape(len(rows), len(names))
    cols = {n: a[:, i].copy() for i, n in enumerate(names)}
    if shape is not None:
        cols = {n: c.reshape(shape) for n, c in cols.items()}
    if extra:
        for k, v in extra.items():
            cols[k] = np.asarray(v).reshape(cols[names[0]].shape)
    return vector.array(cols)


def _nest(values, layout):
    """Arrange a flat python list into the named list layout.  Returns (nested list, is_option_flags)"""
    n = len(values)
    if layout == "flat":
        return values
    if layout == "jagged":  # variable-length lists incl. an empty one
        out, i, k = [], 0, 0
        sizes = [2, 0, 3, 1]
        while i < n:
            s = sizes[k % len(sizes)]
            out.append(values[i : i + s])
            i += s
            k += 1
        out.append([])
        return out
    if layout == "nested3":  # depth 3
        inner = _nest(values, "jagged")
        return [inner[:2], [], inner[2:]]
    if layout == "optlist":  # option at list level
        inner = _nest(values, "jagged")
        return inner[:1] + [None] + inner[1:]
    if layout == "optrec":  # option at record level inside lists
        inner = _nest(values, "jagged")
        out = []
        for j, lst in enumerate(inner):
            out.append(list(lst) + ([None] if j % 2 == 0 else []))
        return out
    if layout == "empty":
        return []
    raise KeyError(layout)


AK_LAYOUTS = ("flat", "jagged", "nested3", "optlist", "optrec", "regular", "empty")


def make_ak(system, flavor, rows, layout="flat", extra=None):
    """Awkward vector array (vector.Array) of the given layout from stored rows."""
    names = L.field_names(system, flavor)
    recs = []
    for i, r in enumerate(rows):
        d = {n: float(v) for n, v in zip(names, r)}
        if extra:
            for k, v in extra.items():
                d[k] = v[i]
        recs.append(d)
    if layout == "regular":
        n = len(recs) // 2 * 2
        arr = ak.to_regular(ak.Array([recs[: n // 2], recs[n // 2 : n]]), axis=1)
        return vector.Array(arr)
    if layout == "empty":
        proto = ak.Array(recs[:1])
        return vector.Array(proto[:0])
    nested = _nest(recs, layout)
    return vector.Array(ak.Array(nested))


def make_akr(system, flavor, row, extra=None):
    arr = make_ak(system, flavor, [row], "flat", extra={k: [v] for k, v in extra.items()} if extra else None)
    return arr[0]


def make_scalar_like(value, like, backend):
    """A scalar argument in array form with the container's structure."""
    if backend == "NP":
        return np.full(like.shape, value, dtype=np.float64)
    if backend == "AKA":
        return ak.ones_like(like[ak.fields(like)[0]]) * value
    return value


# --------------------------------------------------------------------- flattening
def flat_leaves(x):
    """Flatten a python nested list (from ak.to_list / ndarray.tolist) to leaves, keeping None."""
    out = []

    def rec(v):
        if isinstance(v, (list, tuple)):
            for w in v:
                rec(w)
        else:
            out.append(v)

    rec(x)
    return out


def structure(x):
    """List structure of a nested python list with leaves replaced by '.' / None."""
    if isinstance(x, list):
        return [structure(v) for v in x]
    if isinstance(x, dict):
        return "." if any(v is not None for v in x.values()) or not x else None
    return None if x is None else "."


def result_rows(r):
    """Vector-valued backend result -> (kind, system, flavor, list of stored rows or None per element,
    structure).  Works for object, NumPy, Awkward array / record results."""
    if isinstance(r, vector.backends.object.VectorObject):
        system, st = L.system_of(r)
        return ("OBJ", system, _flavor(r), [tuple(float(v) for v in st)], ".")
    if isinstance(r, vector.backends.numpy.VectorNumpy):
        system = system_of_fields(r.dtype.names)
        names = L.field_names(system)
        plain = r.view(np.ndarray)
        cols = [np.asarray(plain[n], dtype=np.float64).reshape(-1) for n in names]
        rows = list(zip(*[c.tolist() for c in cols])) if cols and len(cols[0]) else []
        return ("NP", system, _flavor(r), rows, r.shape)
    if isinstance(r, ak.Record):
        fields = ak.fields(r)
        system = system_of_fields(fields)
        names = L.field_names(system)
        return ("AKR", system, _flavor(r), [tuple(float(r[n]) for n in names)], ".")
    if isinstance(r, ak.Array):
        fields = ak.fields(r)
        system = system_of_fields(fields)
        names = L.field_names(system)
        lst = ak.to_list(r)
        recs = flat_leaves(lst)
        rows = []
        for rec in recs:
            if rec is None or any(rec[n] is None for n in names):
                rows.append(None)
            else:
                rows.append(tuple(float(rec[n]) for n in names))
        return ("AKA", system, _flavor(r), rows, structure(lst))
    raise TypeError(f"not a vector result: {type(r)}")


def scalar_values(r):
    """Scalar/boolean backend result -> (flat list of python values or None, structure)."""
    if isinstance(r, ak.Array):
        lst = ak.to_list(r)
        return flat_leaves(lst), structure(lst)
    if isinstance(r, np.ndarray):
        return r.reshape(-1).tolist(), r.shape
    if isinstance(r, (np.generic,)):
        return [r.item()], "."
    return [r], "."


def _flavor(r):
    return "momentum" if isinstance(r, vector.Momentum) else "generic"


def system_of_fields(fields):
    fields = set(fields)
    az = "xy" if {"x", "y"} <= fields else ("rhophi" if {"rho", "phi"} <= fields else None)
    if az is None:
        raise ValueError(f"no azimuthal coordinates among {sorted(fields)}")
    s = [az]
    lon = [n for n in ("z", "theta", "eta") if n in fields]
    if lon:
        s.append(lon[0])
        tmp = [n for n in ("t", "tau") if n in fields]
        if tmp:
            s.append(tmp[0])
    return tuple(s)


# --------------------------------------------------------------------- snapshots (C16)
def snapshot(v):
    """Bit-for-bit, structure- and type-preserving snapshot of an operand."""
    if isinstance(v, vector.backends.object.VectorObject):
        parts = [type(v).__name__]
        for grp in ("azimuthal", "longitudinal", "temporal"):
            if hasattr(v, grp):
                c = getattr(v, grp)
                parts.append((type(c).__name__, tuple(_bits(e) for e in c.elements)))
        return ("OBJ", tuple(parts))
    if isinstance(v, np.ndarray):
        plain = v.view(np.ndarray)
        base = v.base
        b = None
        if isinstance(base, np.ndarray):
            bp = base.view(np.ndarray)
            b = (bp.tobytes(), str(bp.dtype), bp.shape)
        return ("NP", type(v).__name__, str(plain.dtype), tuple(plain.dtype.names or ()), plain.shape, plain.strides, plain.tobytes(), b)
    if isinstance(v, (ak.Array, ak.Record)):
        arr = v if isinstance(v, ak.Array) else None
        if arr is None:
            lay = v.layout
            form, length, bufs = ak.to_buffers(ak.Array(lay.array[lay.at : lay.at + 1]))
        else:
            form, length, bufs = ak.to_buffers(v)
        beh = v.behavior
        return ("AK", type(v).__name__, form.to_json(), length, tuple(sorted((k, np.asarray(b).tobytes()) for k, b in bufs.items())),
                None if beh is None else id(beh), tuple(ak.fields(v)), ak.parameters(v).get("__record__"))
    if isinstance(v, dict):
        return ("dict", tuple(sorted((k, snapshot(x)) for k, x in v.items())))
    if isinstance(v, (float, int, bool, str, type(None))):
        return ("py", type(v).__name__, repr(v))
    if isinstance(v, np.generic):
        return ("npscalar", str(v.dtype), v.tobytes())
    return ("other", type(v).__name__, repr(v))


def _bits(x):
    if isinstance(x, float):
        return ("f", x.hex())
    if isinstance(x, (int, bool)):
        return (type(x).__name__, x)
    if isinstance(x, np.generic):
        return (str(x.dtype), x.tobytes())
    return ("?", repr(x))
