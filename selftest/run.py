#!/venv/bin/python
"""Mutation self-test: apply each mutant to a scratch copy of /repo/src (outside /repo and
/verif), run the quick checks it should break with VECTOR_SRC pointing at the copy, and
record whether each check reports a VIOLATION.  Optionally confirms that the repository's
own tests for the touched area still pass on the mutated copy (--tests).

usage: selftest/run.py [--only name[,name]] [--props C01,C02] [--tests] [--all-checks] [--tier quick]
"""

from __future__ import annotations

import argparse
import json
import os
import re
import shutil
import subprocess
import sys
import tempfile
import time

HERE = os.path.dirname(os.path.abspath(__file__))
VERIF = os.path.dirname(HERE)
sys.path.insert(0, HERE)
from mutants import M  # noqa: E402


def apply_mutant(scratch, m):
    path = os.path.join(scratch, m["file"])
    s = open(path).read()
    olds = m["old"] if isinstance(m["old"], list) else [m["old"]]
    news = m["new"] if isinstance(m["new"], list) else [m["new"]]
    for old, new in zip(olds, news):
        n = s.count(old)
        if n == 0:
            raise RuntimeError(f"pattern not found in {m['file']}: {old[:60]!r}")
        if m["count"] is not None and n != m["count"]:
            raise RuntimeError(f"pattern occurs {n} times in {m['file']}, expected {m['count']}")
        s = s.replace(old, new)
    open(path, "w").write(s)


def main():
    ap = argparse.ArgumentParser()
    ap.add_argument("--only")
    ap.add_argument("--props")
    ap.add_argument("--tests", action="store_true", help="also run the repository test suite on the mutated copy")
    ap.add_argument("--all-checks", action="store_true", help="run every registered check, not only the expected ones")
    ap.add_argument("--tier", default="quick")
    ns = ap.parse_args()
    names = ns.only.split(",") if ns.only else list(M)
    manifest = json.load(open(os.path.join(VERIF, "MANIFEST.json")))
    registered = [c["property_id"] for c in manifest["checks"]]
    results = {}
    for name in names:
        m = M[name]
        scratch = tempfile.mkdtemp(prefix="vmut-")
        try:
            shutil.copytree("/repo/src", os.path.join(scratch, "src"), ignore=shutil.ignore_patterns("__pycache__"))
            apply_mutant(scratch, m)
            props = registered if ns.all_checks else [p for p in m["props"] if p in registered]
            if ns.props:
                props = [p for p in props if p in ns.props.split(",")]
            row = {"expected": m["props"], "note": m["note"], "checks": {}}
            if ns.tests:
                shutil.copytree("/repo/tests", os.path.join(scratch, "tests"))
                for f in ("pyproject.toml",):
                    shutil.copy(os.path.join("/repo", f), scratch)
                env = dict(os.environ, PYTHONPATH=os.path.join(scratch, "src"), PYTHONDONTWRITEBYTECODE="1")
                t0 = time.time()
                p = subprocess.run(["/venv/bin/python", "-m", "pytest", "-q", "-x", "-p", "no:cacheprovider", "--timeout=900", "tests",
                                    "--deselect", "tests/test_notebooks.py", "-k", "not sympy or sympy"],
                                   cwd=scratch, env=env, capture_output=True, text=True)
                tail = p.stdout.strip().splitlines()[-1] if p.stdout.strip() else ""
                row["repo_tests"] = {"exit": p.returncode, "summary": tail, "wall_s": round(time.time() - t0)}
            for pid in props:
                env = dict(os.environ, VECTOR_SRC=os.path.join(scratch, "src"), VERIF_OUT=os.path.join(scratch, "out"))
                t0 = time.time()
                p = subprocess.run(["./check", pid, "--tier", ns.tier], cwd=VERIF, env=env, capture_output=True, text=True)
                viol = [ln for ln in p.stdout.splitlines() if ln.startswith("VIOLATION")]
                row["checks"][pid] = {"exit": p.returncode, "violation_lines": len(viol), "first": (viol[0][:260] if viol else ""), "wall_s": round(time.time() - t0, 1)}
                print(f"{name:40s} {pid} exit={p.returncode} violations={len(viol)} {row['checks'][pid]['wall_s']}s  {viol[0][:150] if viol else ''}", flush=True)
            results[name] = row
        finally:
            shutil.rmtree(scratch, ignore_errors=True)
    out = os.path.join(HERE, "results.json")
    old = {}
    if os.path.exists(out):
        old = json.load(open(out))
    for k, v in results.items():
        if k in old:
            old[k]["checks"].update(v["checks"])
            for kk in v:
                if kk != "checks":
                    old[k][kk] = v[kk]
        else:
            old[k] = v
    json.dump(old, open(out, "w"), indent=1)
    missed = [(n, p) for n, r in results.items() for p, c in r["checks"].items() if p in r["expected"] and c["exit"] != 1]
    print(f"\n{len(results)} mutants; missed by an expected check: {missed}")
    return 1 if missed else 0


if __name__ == "__main__":
    sys.exit(main())
