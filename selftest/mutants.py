"""Realistic property-breaking mutants (file, old text, new text) and the checks expected
to catch them.  Applied to a scratch copy of /repo/src, never to /repo itself."""

M = {}


def mut(name, file, old, new, props, note="", count=1):
    M[name] = dict(file=file, old=old, new=new, props=props, note=note, count=count)


C = "src/vector/_compute/"

# --- coordinate conversions / variants (C01, C02) ------------------------------------------
mut("z_rhophi_eta_scaled", C + "spatial/z.py", "return rho * lib.sinh(eta)", "return rho * lib.sinh(eta) * 1.0000001", ["C01", "C02"],
    "one conversion variant off by 1e-7")
mut("eta_xy_theta_wrong_helper", C + "spatial/eta.py", "def xy_theta(lib, x, y, theta):\n    return lib.nan_to_num(\n        -lib.log(lib.tan(0.5 * theta))",
    "def xy_theta(lib, x, y, theta):\n    return lib.nan_to_num(\n        -lib.log(lib.tan(0.5 * theta + 1e-9))", ["C01", "C02"], "perturbed formula in one variant")
mut("phi_xy_swapped", C + "planar/phi.py", "return lib.arctan2(y, x)", "return lib.arctan2(x, y)", ["C01", "C02"], "swapped arctan2 arguments (consistent Cartesian mistake)")
mut("deltaphi_rectify_0_2pi", C + "planar/deltaphi.py", "return (phi + lib.pi) % (2 * lib.pi) - lib.pi", "return phi % (2 * lib.pi)", ["C02", "C13"], "deltaphi wrapped to [0, 2pi)")
mut("rapidity_tau_uses_tau_as_t", C + "lorentz/rapidity.py", "def xy_z_tau(lib, x, y, z, tau):\n    return xy_z_t(lib, x, y, z, t.xy_z_tau(lib, x, y, z, tau))",
    "def xy_z_tau(lib, x, y, z, tau):\n    return xy_z_t(lib, x, y, z, lib.absolute(tau))", ["C01", "C02"], "tau variant forgets the conversion")
mut("Mt2_clamp_restored", C + "lorentz/Mt2.py", "def xy_z_tau(lib, x, y, z, tau):\n    return tau2.xy_z_tau(lib, x, y, z, tau) + x**2 + y**2",
    "def xy_z_tau(lib, x, y, z, tau):\n    return lib.maximum(tau2.xy_z_tau(lib, x, y, z, tau) + x**2 + y**2, 0)", ["C01", "C02"], "re-introduces the repaired defect in one variant")

# --- rotations (C10) ----------------------------------------------------------------------
mut("rotate_euler_xyz_entry_sign", C + "spatial/rotate_euler.py", "def cartesian_xzy(lib, phi, theta, psi, x, y, z):\n    c1 = lib.cos(psi)\n    s1 = -lib.sin(psi)\n    c2 = lib.cos(theta)\n    s2 = -lib.sin(theta)\n    c3 = lib.cos(phi)\n    s3 = -lib.sin(phi)\n    xp = (c2 * c3) * x + (-s2) * y + (c2 * s3) * z",
    "def cartesian_xzy(lib, phi, theta, psi, x, y, z):\n    c1 = lib.cos(psi)\n    s1 = -lib.sin(psi)\n    c2 = lib.cos(theta)\n    s2 = -lib.sin(theta)\n    c3 = lib.cos(phi)\n    s3 = -lib.sin(phi)\n    xp = (c2 * c3) * x + (s2) * y + (c2 * s3) * z",
    ["C02", "C10"], "one matrix entry of one Euler order has the wrong sign")
mut("rotate_nautical_order", "src/vector/_methods.py", 'return rotate_euler.dispatch(roll, pitch, yaw, "zyx", self)', 'return rotate_euler.dispatch(yaw, pitch, roll, "zyx", self)', ["C02", "C10"], "yaw and roll swapped")
mut("rotateX_sign", C + "spatial/rotateX.py", "s = lib.sin(angle)", "s = -lib.sin(angle)", ["C02", "C10"], "rotateX rotates the other way", count=None)

# --- boosts (C09) ---------------------------------------------------------------------------
mut("boostCM_of_p4_forgets_neg", "src/vector/_methods.py", "        if dim(p4) != 4:\n            raise TypeError(f\"{p4!r} is not a 4D momentum vector\")\n        return boost_p4.dispatch(self, p4.neg3D)",
    "        if dim(p4) != 4:\n            raise TypeError(f\"{p4!r} is not a 4D momentum vector\")\n        return boost_p4.dispatch(self, p4)", ["C02", "C09"], "boostCM_of_p4 boosts away instead of into the CM frame")
mut("boostY_gamma_sign", C + "lorentz/boostY_gamma.py", "lib.copysign(lib.sqrt(gam**2 - 1), gamma)", "lib.sqrt(gam**2 - 1)", ["C02", "C09"], "negative gamma no longer reverses the direction", count=None)

# --- predicates / ranges (C13) ---------------------------------------------------------------
mut("is_antiparallel_tol_sign", C + "spatial/is_antiparallel.py", ") < (lib.absolute(tolerance) - 1) * mag1_function(", ") < (lib.absolute(tolerance) + 1) * mag1_function(", ["C02", "C13"], "antiparallel threshold wrong")
mut("is_spacelike_overlap_restored", C + "lorentz/is_spacelike.py", ") < -lib.absolute(tolerance)", ") < lib.absolute(tolerance)", ["C13"], "re-introduces the repaired overlap")
mut("t2_tau_no_clamp", C + "lorentz/t2.py", "def xy_z_tau(lib, x, y, z, tau):\n    return lib.maximum(tau2.xy_z_tau(lib, x, y, z, tau) + mag2.xy_z(lib, x, y, z), 0)",
    "def xy_z_tau(lib, x, y, z, tau):\n    return tau2.xy_z_tau(lib, x, y, z, tau) + mag2.xy_z(lib, x, y, z)", ["C13"], "t derived from a very negative tau becomes NaN")

# --- equality (C12) ----------------------------------------------------------------------------
mut("not_equal_and_restored", C + "planar/not_equal.py", "return (x1 != x2) | (y1 != y2)", "return (x1 != x2) & (y1 != y2)", ["C12"], "re-introduces the repaired defect in one variant")
mut("isclose_spatial_ignores_z", C + "spatial/isclose.py", "& lib.isclose(z1, z2, rtol, atol, equal_nan)", "", ["C12"], "3D isclose forgets the longitudinal coordinate", count=None)

# --- constructors (C06) --------------------------------------------------------------------------
mut("obj_energy_guard_removed", "src/vector/backends/object.py", 'if "energy" in coordinates and "t" not in generic_coordinates:', 'if "energy" in coordinates:', ["C06"], "E= together with energy= silently accepted")
mut("obj_type_check_allows_bool", "src/vector/backends/object.py", "if not issubclass(type(value), numbers.Real) or isinstance(value, bool):", "if not issubclass(type(value), numbers.Real):", ["C06"], "booleans accepted as coordinates")
mut("array_names_pz_not_3d", "src/vector/backends/numpy.py", 'elif any(x in ("z", "pz", "theta", "eta") for x in names):', 'elif any(x in ("z", "theta", "eta") for x in names):', ["C06"], "vector.array with pz builds a 2D vector carrying pz as an extra field")

# --- algebra (C11) ------------------------------------------------------------------------------
mut("numpy_true_divide_multiplies", "src/vector/backends/numpy.py", "result = inputs[0].scale(1 / inputs[1])", "result = inputs[0].scale(inputs[1])", ["C11"], "NumPy-backend '/' multiplies instead of dividing")
mut("object_rmul_ignores_factor", "src/vector/backends/object.py", "result = inputs[1].scale(inputs[0])", "result = inputs[1].scale(1)", ["C11"], "object-backend  k * v  ignores k")
mut("awkward_cbrt_4d_uses_mag", "src/vector/backends/awkward.py", 'behavior[numpy.cbrt, "Vector4D"] = lambda v: v.tau2**0.16666666666666666', 'behavior[numpy.cbrt, "Vector4D"] = lambda v: v.mag2**0.16666666666666666', ["C11"], "numpy.cbrt of a generic Awkward 4D vector uses mag instead of tau")

# --- conversions (C04) and type rules (C05) ---------------------------------------------------------
mut("to_rhophietatau_uses_t", "src/vector/_methods.py", "            tcoord = lorentz.tau.dispatch(self)\n\n        return self._wrap_result(\n            type(self),\n            (planar.rho.dispatch(self), planar.phi.dispatch(self), lcoord, tcoord),\n            [AzimuthalRhoPhi, LongitudinalEta, TemporalTau],",
    "            tcoord = lorentz.t.dispatch(self)\n\n        return self._wrap_result(\n            type(self),\n            (planar.rho.dispatch(self), planar.phi.dispatch(self), lcoord, tcoord),\n            [AzimuthalRhoPhi, LongitudinalEta, TemporalTau],", ["C04"], "one of the 20 conversions stores t under the name tau")
mut("to_Vector4D_mass_as_t", "src/vector/_methods.py", "        if any(coord is not None for coord in (tau, m, M, mass)):\n            t_type = TemporalTau\n            t_value = next(coord for coord in (tau, m, M, mass) if coord is not None)\n        elif any(coord is not None for coord in (t, e, E, energy)):\n            t_value = next(coord for coord in (t, e, E, energy) if coord is not None)\n\n        return self._wrap_result(\n            type(self),\n            (*self.azimuthal.elements, *self.longitudinal.elements, t_value),",
    "        if any(coord is not None for coord in (tau, m, mass)):\n            t_type = TemporalTau\n            t_value = next(coord for coord in (tau, m, M, mass) if coord is not None)\n        elif any(coord is not None for coord in (t, e, E, energy, M)):\n            t_value = next(coord for coord in (t, e, E, energy, M) if coord is not None)\n\n        return self._wrap_result(\n            type(self),\n            (*self.azimuthal.elements, *self.longitudinal.elements, t_value),", ["C04"], "3D.to_Vector4D(M=...) stores the value as t instead of tau")
mut("handler_priority_numpy_over_awkward", "src/vector/_methods.py", '    "vector.backends.numpy",\n    "vector.backends.sympy",\n    "vector.backends.awkward",\n]', '    "vector.backends.awkward",\n    "vector.backends.sympy",\n    "vector.backends.numpy",\n]', ["C05"], "NumPy outranks Awkward when choosing the result backend")
mut("flavor_of_all_instead_of_any", "src/vector/_methods.py", "is_momentum = any(isinstance(obj, Momentum) for obj in objects)", "is_momentum = all(isinstance(obj, Momentum) for obj in objects if isinstance(obj, Vector))", ["C05"], "momentum only if every operand is momentum")
mut("cross_accepts_4d", "src/vector/_methods.py", '        if dim(self) != 3 or dim(other) != 3:\n            raise TypeError("cross is only defined for 3D vectors")', '        if dim(self) < 3 or dim(other) < 3:\n            raise TypeError("cross is only defined for 3D vectors")', ["C05"], "cross no longer rejects 4D operands")
mut("momentum3d_projection_generic", "src/vector/backends/numpy.py", "MomentumNumpy3D.ProjectionClass2D = MomentumNumpy2D", "MomentumNumpy3D.ProjectionClass2D = VectorNumpy2D", ["C04"], "projection of a 3D momentum NumPy array to 2D loses the flavor")

# --- synonyms (C14) and in-place updates (C15) -------------------------------------------------------------
mut("momentum4d_e_getter_returns_tau", "src/vector/_methods.py", "    @property\n    def e(self) -> ScalarCollection:\n        return self.t", "    @property\n    def e(self) -> ScalarCollection:\n        return self.tau", ["C14"], "the synonym e returns tau instead of t")
mut("numpy_getitem_M_not_mapped", "src/vector/_methods.py", '    "M": "tau",\n    "m": "tau",\n    "mass": "tau",\n}\n\n\n_coordinate_order', '    "m": "tau",\n    "mass": "tau",\n}\n\n\n_coordinate_order', ["C14", "C06"], "M dropped from the synonym table used by NumPy item access, setters and constructors")
mut("pt_setter_reads_stored_slot", "src/vector/backends/object.py", "    @pt.setter\n    def pt(self, pt: float) -> None:\n        self.azimuthal = AzimuthalObjectRhoPhi(pt, self.phi)\n\n    @property\n    def pz(self) -> float:\n        return super().pz\n\n    @pz.setter\n    def pz(self, pz: float) -> None:\n        self.longitudinal = LongitudinalObjectZ(pz)\n\n    @property\n    def E(self)",
    "    @pt.setter\n    def pt(self, pt: float) -> None:\n        self.azimuthal = AzimuthalObjectRhoPhi(pt, self.azimuthal[1])\n\n    @property\n    def pz(self) -> float:\n        return super().pz\n\n    @pz.setter\n    def pz(self, pz: float) -> None:\n        self.longitudinal = LongitudinalObjectZ(pz)\n\n    @property\n    def E(self)", ["C14", "C15"], "4D momentum pt setter takes the second stored azimuthal number as phi (wrong when stored as x, y)")
mut("replace_data_theta_uses_eta", "src/vector/backends/object.py", "obj.longitudinal = LongitudinalObjectTheta(result.theta)", "obj.longitudinal = LongitudinalObjectTheta(result.eta)", ["C15"], "in-place operators on theta-stored objects store eta under theta")
mut("isub_adds", "src/vector/backends/object.py", "return _replace_data(self, numpy.subtract(self, other))", "return _replace_data(self, numpy.add(self, other))", ["C15"], "-= adds")
mut("iadd_returns_new_object", "src/vector/backends/object.py", "        return _replace_data(self, numpy.add(self, other))", "        return numpy.add(self, other)", ["C15"], "+= rebinds the name to a new object (identity and coordinate system lost)")

# --- backends (C03) and operand immutability (C16) -------------------------------------------------------------
mut("awkward_wrap_rhophi_swapped", "src/vector/backends/awkward.py", '            elif returns[0] is AzimuthalRhoPhi:\n                names.extend(["rho", "phi"])\n                arrays.extend([result[0], result[1]])\n\n            if returns[1] is LongitudinalZ:\n                names.append("z")\n                arrays.append(result[2])\n            elif returns[1] is LongitudinalTheta:\n                names.append("theta")\n                arrays.append(result[2])\n            elif returns[1] is LongitudinalEta:\n                names.append("eta")\n                arrays.append(result[2])\n\n            if returns[2] is TemporalT:',
    '            elif returns[0] is AzimuthalRhoPhi:\n                names.extend(["rho", "phi"])\n                arrays.extend([result[1], result[0]])\n\n            if returns[1] is LongitudinalZ:\n                names.append("z")\n                arrays.append(result[2])\n            elif returns[1] is LongitudinalTheta:\n                names.append("theta")\n                arrays.append(result[2])\n            elif returns[1] is LongitudinalEta:\n                names.append("eta")\n                arrays.append(result[2])\n\n            if returns[2] is TemporalT:', ["C03"], "Awkward 4D results in rho-phi systems have rho and phi swapped")
mut("numpy_wrap_reuses_operand_memory", "src/vector/backends/numpy.py", "            out = numpy.empty(_shape_of(result), dtype=dtype)\n            for i, name in enumerate(_coordinate_class_to_names[returns[0]]):\n                out[name] = result[i]\n            return out.view(cls.ProjectionClass2D)",
    "            out = (\n                self.view(numpy.ndarray)\n                if self.dtype == numpy.dtype(dtype) and self.shape == _shape_of(result)\n                else numpy.empty(_shape_of(result), dtype=dtype)\n            )\n            for i, name in enumerate(_coordinate_class_to_names[returns[0]]):\n                out[name] = result[i]\n            return out.view(cls.ProjectionClass2D)", ["C16"], "2D NumPy results are written into the operand's own memory when the dtypes match", count=None)
mut("object_scale_mutates_self", "src/vector/_compute/planar/scale.py", "    with numpy.errstate(all=\"ignore\"):\n        return v._wrap_result(", "    with numpy.errstate(all=\"ignore\"):\n        if hasattr(v, \"__slots__\") and factor == -1 and _aztype(v) is AzimuthalXY:\n            v.azimuthal = type(v.azimuthal)(-v.azimuthal[0], -v.azimuthal[1])\n            return v\n        return v._wrap_result(", ["C16", "C03"], "a 'fast path' negates a 2D object vector in place and returns it")
mut("numpy_toarrays_float32", "src/vector/backends/numpy.py", "x if isinstance(x, numpy.ndarray) else numpy.array([x], numpy.float64)", "x if isinstance(x, numpy.ndarray) else numpy.array([x], numpy.float32)", ["C03"], "scalars broadcast against NumPy arrays are rounded to float32")

# --- reductions (C17) and Awkward structure (C18) -----------------------------------------------------------------
mut("numpy_reduce_sum_fieldwise_rho", "src/vector/backends/numpy.py", '    fields["px"] = numpy.sum(a.x, axis=axis, keepdims=keepdims)', '    fields["px"] = numpy.sum(a.rho, axis=axis, keepdims=keepdims) * numpy.cos(numpy.sum(a.phi, axis=axis, keepdims=keepdims))', ["C17"], "NumPy sum combines rho and phi field-wise instead of summing x")
mut("awkward_count_nonzero_ignores_z", "src/vector/backends/awkward.py", "    if isinstance(array, Spatial):\n        is_nonzero = numpy.logical_or(is_nonzero, array.z != 0)\n    if isinstance(array, Lorentz):\n        is_nonzero = numpy.logical_or(is_nonzero, array.t2 != 0)\n\n    return ak.count_nonzero(is_nonzero, axis=1)",
    "    if isinstance(array, Lorentz):\n        is_nonzero = numpy.logical_or(is_nonzero, array.t2 != 0)\n\n    return ak.count_nonzero(is_nonzero, axis=1)", ["C17"], "ak.count_nonzero ignores the longitudinal component")
mut("awkward_reduce_sum_loses_flavor", "src/vector/backends/awkward.py", '        with_name=layout.purelist_parameter("__record__"),', '        with_name=layout.purelist_parameter("__record__").replace("Momentum", "Vector"),', ["C17"], "ak.sum of a momentum array returns a generic vector")
mut("awkward_wrap_drops_extra_4d", "src/vector/backends/awkward.py", '                        _azimuthal_fields + _longitudinal_fields + _temporal_fields\n                    ):\n                        names.append(name)\n                        arrays.append(self[name])\n\n            return maybe_record(\n                ak.zip(\n                    dict(zip(names, arrays)),\n                    depth_limit=first.layout.purelist_depth,\n                    with_name=_class_to_name(cls.ProjectionClass4D),',
    '                        _azimuthal_fields + _longitudinal_fields + _temporal_fields + ("charge",)\n                    ):\n                        names.append(name)\n                        arrays.append(self[name])\n\n            return maybe_record(\n                ak.zip(\n                    dict(zip(names, arrays)),\n                    depth_limit=first.layout.purelist_depth,\n                    with_name=_class_to_name(cls.ProjectionClass4D),', ["C18"], "4D vector-valued results drop a field named charge")
mut("awkward_wrap_depth_limit_off_by_one", "src/vector/backends/awkward.py", "                    depth_limit=first.layout.purelist_depth,\n                    with_name=_class_to_name(cls.ProjectionClass3D),", "                    depth_limit=max(1, first.layout.purelist_depth - 1),\n                    with_name=_class_to_name(cls.ProjectionClass3D),", ["C18", "C03"], "3D results are zipped one level too shallow (records of lists instead of lists of records)")

# --- NumPy arrays as arrays of vectors (C19) ----------------------------------------------------------------------------
mut("getitem_element_temporal_from_longitudinal", "src/vector/backends/numpy.py", "                *(out[x] for x in _coordinate_class_to_names[_ttype(array)])", "                *(out[x] for x in _coordinate_class_to_names[_ltype(array)])", ["C19"], "arr[i] of a 4D array takes the temporal coordinate from the longitudinal column")
mut("momentum_object_array_generic", "src/vector/backends/object.py", "        from vector.backends.numpy import MomentumNumpy3D\n\n        return MomentumNumpy3D(", "        from vector.backends.numpy import VectorNumpy3D\n\n        return VectorNumpy3D(", ["C19"], "numpy.asanyarray(MomentumObject3D) loses the flavor")
mut("setstate_drops_dict", "src/vector/backends/numpy.py", "        self.__dict__.update(state[-1])\n", "", ["C19"], "unpickled arrays lose their coordinate-type attributes")
mut("getitem_str_energy_maps_to_tau", "src/vector/backends/numpy.py", "    if isinstance(where, str):\n        if is_momentum:\n            where = _repr_momentum_to_generic.get(where, where)\n        return array.view(numpy.ndarray)[where]", "    if isinstance(where, str):\n        if is_momentum:\n            where = {**_repr_momentum_to_generic, \"e\": \"tau\"}.get(where, where)\n        return array.view(numpy.ndarray)[where]", ["C19", "C14"], "arr['e'] returns the tau column")

# --- global state and threads (C20) ----------------------------------------------------------------------------------------
mut("numpy_wrap_module_scratch_buffer", "src/vector/backends/numpy.py",
    ["T = typing.TypeVar(\"T\", bound=\"VectorNumpy\")", "            out = numpy.empty(_shape_of(result), dtype=dtype)", "            return out.view(cls.ProjectionClass"],
    ["_SCRATCH: dict = {}\nT = typing.TypeVar(\"T\", bound=\"VectorNumpy\")", "            out = _SCRATCH.setdefault(\n                (_shape_of(result), str(dtype)), numpy.empty(_shape_of(result), dtype=dtype)\n            )", "            return out.copy().view(cls.ProjectionClass"],
    ["C20"], "result buffers hoisted to a module-level scratch cache (copied on return): sequential behaviour unchanged, a preemption between fill and copy corrupts results", count=None)
mut("errstate_replaced_by_seterr", "src/vector/_compute/planar/rho.py", "    with numpy.errstate(all=\"ignore\"):\n", "    numpy.seterr(all=\"ignore\")\n    if True:\n", ["C20"], "one dispatch function silences floating-point errors with an un-restored numpy.seterr")
mut("register_awkward_not_idempotent", "src/vector/__init__.py", "    awkward.behavior.update(vector.backends.awkward.behavior)\n", "    awkward.behavior.update(vector.backends.awkward.behavior)\n    awkward.behavior[\"__vector_registration__\"] = object()\n", ["C20"], "every register_awkward() call installs a fresh marker object")
mut("array_ctor_leaks_warning_filter", "src/vector/backends/awkward_constructors.py", "    array_type = akarray.type\n", "    import warnings\n\n    warnings.simplefilter(\"ignore\", DeprecationWarning)\n    array_type = akarray.type\n", ["C20"], "vector.Array() installs a warnings filter and never removes it")
mut("object_wrap_shared_scratch_list", "src/vector/backends/object.py",
    ["def _replace_data(obj: typing.Any, result: typing.Any) -> typing.Any:", "            azcoords = _coord_object_type[returns[0]](result[0], result[1])\n            lcoords = _coord_object_type[returns[1]](result[2])\n            tcoords = _coord_object_type[returns[2]](result[3])"],
    ["_LAST: list = [None]\n\n\ndef _replace_data(obj: typing.Any, result: typing.Any) -> typing.Any:", "            _LAST[0] = result\n            azcoords = _coord_object_type[returns[0]](_LAST[0][0], _LAST[0][1])\n            lcoords = _coord_object_type[returns[1]](_LAST[0][2])\n            tcoords = _coord_object_type[returns[2]](_LAST[0][3])"],
    ["C20"], "4D object results are staged in a module-level slot before being wrapped", count=None)
